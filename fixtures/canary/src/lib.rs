//! Canary crate for the zero-expected rules of the string_calculator checks (DESIGN §3.6).
//! It contains exactly the constructs those rules forbid; every check that relies on such a
//! rule first runs the rule on this crate and fails closed if the expected hit is missing.
//! Nothing here is ever executed.
#![allow(dead_code, unused, static_mut_refs)]

pub mod eval_f64 {
    use std::cell::Cell;
    use std::sync::Mutex;

    #[derive(Debug)]
    pub enum ParseError {
        Bad(String),
    }

    static mut COUNTER: u64 = 0;                                  // C16: static mut
    static LAST: Mutex<Option<f64>> = Mutex::new(None);          // C16: interior-mutable static
    thread_local! { static CALLS: Cell<u64> = Cell::new(0); }     // C16: thread-local state

    pub mod ast {
        pub fn eval(values: Vec<i64>, x: f64) -> Result<f64, Box<dyn std::error::Error>> {
            let first = values.first().copied().unwrap();          // C01: Option::unwrap
            let second = values[1];                                // C01: Index
            let sum = first + second;                              // C01/C06: raw i64 add (Overflow(Add))
            let quot = first / second;                             // C01: DivisionByZero + Overflow(Div)
            let wrapped = first.wrapping_mul(second);              // C06: wrapping method
            let narrow = first as u32;                             // C06: narrowing cast
            let p = first.pow(narrow);                             // C01/C06: panicking pow
            let mut n = x;
            let mut steps = 0.0;
            while n > 1.0 {                                        // C02: value-driven loop without a bound
                n = n.sqrt();
                steps += 1.0;
            }
            let mut acc = 0.0;
            for i in 0..(x as usize) {                             // C02: counted loop without upper-bound provenance
                acc += i as f64;
            }
            Ok((sum + quot + wrapped + p) as f64 + steps + acc)
        }
    }

    pub fn eval_f64(expr: String, placeholder: f64) -> Result<f64, ParseError> {
        let cell = Cell::new(placeholder);                         // C16: interior mutability in a local
        cell.set(cell.get() + 1.0);
        unsafe { COUNTER += 1; }                                   // C16: unsafe block + static use
        if let Ok(mut g) = LAST.lock() { *g = Some(placeholder); } // C16: ambient state (Mutex)
        CALLS.with(|c| c.set(c.get() + 1));
        let home = std::env::var("HOME").unwrap_or_default();      // C16: ambient-state callee
        let values: Vec<i64> = expr.split(',').filter_map(|s| s.parse().ok()).collect();
        ast::eval(values, cell.get() + home.len() as f64).map_err(|e| ParseError::Bad(e.to_string()))
    }
}

pub use eval_f64::eval_f64;
