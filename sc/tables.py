"""Table extraction (engine E3): per evaluator, the lexer / precedence / primary /
binary / implicit-product tables and the eval arm terms, all derived from the
typed THIR of the current tree.  Unrecognised shapes are collected in `issues`
(reported by the properties that need the affected table)."""
import re
from . import thir as T
from .pat import M, parse as P, unify, subterms, contains
from .facts import EVALUATORS


class Unrecognised(Exception):
    pass


def local_names(t, ev):
    """Shorten crate-local function names: eval_f64::parser::Parser::generate_ast -> P.generate_ast"""
    if isinstance(t, tuple):
        return tuple(local_names(x, ev) for x in t)
    if isinstance(t, str):
        t2 = re.sub(r"^%s::parser::Parser::" % ev, "P.", t)
        t2 = re.sub(r"^%s::token::Token::" % ev, "Token.", t2)
        t2 = re.sub(r"^%s::tokenizer::" % ev, "Lex.", t2)
        t2 = re.sub(r"^%s::ast::" % ev, "Ast.", t2)
        # free functions of any other module of the evaluator's evaluation side (ast.rs split into several files)
        t2 = re.sub(r"^%s::(?!parser::|token::|tokenizer::|number::)\w+::(\w+)$" % ev, r"Ast.\1", t2)
        t2 = re.sub(r"^utils::\w+::", "utils.", t2)
        t2 = t2.replace("<std::iter::Peekable<std::str::Chars<'_>> as iter::Iterator>::", "Chars.")
        t2 = t2.replace("<std::iter::Peekable<std::str::Chars<'a>> as iter::Iterator>::", "Chars.")
        t2 = t2.replace("<std::iter::Peekable<std::str::Chars<'_>> as iter::Peekable::<I>>::", "Chars.")
        if t2 in ("iter::Peekable::peek", "iter::Peekable::next_if", "iter::Peekable::next_if_eq"):
            t2 = "Chars." + t2.rsplit("::", 1)[1]
        t2 = t2.replace("<&mut std::iter::Peekable<std::str::Chars<'_>> as iter::Iterator>::", "CharsRef.")
        t2 = t2.replace("<std::iter::Take<&mut std::iter::Peekable<std::str::Chars<'_>>> as iter::Iterator>::", "TakeRef.")
        t2 = t2.replace("<std::iter::Take<std::iter::Peekable<std::str::Chars<'_>>> as iter::Iterator>::", "Take.")
        return t2
    return t


# the parser functions that make up the recursive-descent schema (everything else in `impl Parser` is a helper that
# is inlined before a function is summarised)
SCHEMA_FNS = {"get_next_token", "generate_ast", "function_static_arguments", "function_arguments", "find_item_list", "check_paren",
              "get_enclosed_elements_with_impl_mult", "implicit_multiply", "convert_token_to_node", "parse_number", "parse", "new"}

# utils functions the rules know by name (the superscript scanner and its digit map: C03-d, C13)
UTILS_NAMED = {"deserialize_superscript_number", "superscript_digit_to_digit"}

# helpers the rules know by name (compared as functions in their own right: C10, C11)
NAMED_HELPERS = {"eval_i64": {"gcd", "lcm"}, "eval_f64": {"gamma"}, "eval_number": {"gamma"}, "eval_decimal": {"gamma", "lambert_w", "ilog"}, "eval_complex": set()}


def freshen(t, k):
    """rename the generated variable names of an inlined body apart from the caller's (b3 -> b3003, ...)"""
    if isinstance(t, tuple):
        if len(t) >= 2 and t[0] in ("var", "bind", "let", "bind@") and isinstance(t[1], str) and re.match(r"^[bmvh]\d+$", t[1]):
            return (t[0], "%s%d" % (t[1][0], int(t[1][1:]) + 1000 * k)) + tuple(freshen(x, k) for x in t[2:])
        return tuple(freshen(x, k) for x in t)
    return t


class EvTables:
    def __init__(self, F, ev):
        self.F = F
        self.ev = ev
        self.TR = T.Translator(F)
        self.issues = []
        self._cache = {}

    # ---- helpers ----------------------------------------------------------
    def issue(self, table, where, detail):
        self.issues.append({"table": table, "where": where, "detail": detail})

    def fn(self, suffix):
        """Find the crate fn of this evaluator whose key ends with suffix (schema functions: by role, see roles())."""
        m_ = re.match(r"^::parser::Parser::(\w+)$", suffix)
        if m_ and m_.group(1) in SCHEMA_FNS and not self._cache.get("roles_busy"):
            r = self.roles().get(m_.group(1))
            if r is not None:
                return r
        if suffix == "::token::Token::get_oper_prec" and not self._cache.get("roles_busy"):
            r = self.roles().get("get_oper_prec")
            if r is not None:
                return r
        return self._fn_by_suffix(suffix)

    def _fn_by_suffix(self, suffix):
        cands = [f for k, f in self.F.by_key.items() if f.evaluator == self.ev and k.endswith(suffix) and f.kind != "Closure"]
        if not cands:
            return None
        cands.sort(key=lambda f: len(f.key))
        return cands[0]

    def roles(self):
        """schema role -> function.  A role is found by its conventional name; if that name is gone (the function
        was renamed), by its signature and its place in the call structure of `impl Parser`:
          get_next_token (&mut self) -> Result<()>  calling Tokenizer::next;   check_paren (&mut self, Token) -> Result<()>
          generate_ast (&mut self, Category) -> Result<Node>;   parse_number (&mut self) -> Result<Node>, first call of generate_ast
          convert_token_to_node (&mut self, Node) -> Result<Node> called in generate_ast;  implicit_multiply: the other one
          function_static_arguments (&mut self, int) -> Result<Vec<Node>>;  function_arguments (&mut self) -> Result<Vec<Node>>
          find_item_list (&mut self, Token, Token, Category, ..);  get_enclosed_.. (&mut self, Category, Token, fn(Node)->Node)
          parse: the public (&mut self) -> Result<Node>;  Token::get_oper_prec (&Token) -> Category"""
        if "roles" in self._cache:
            return self._cache["roles"]
        self._cache["roles_busy"] = True
        try:
            out = {}
            ms = [f for f in self.F.fns if f.evaluator == self.ev and re.search(r"::parser::Parser::\w+$", f.key) and f.kind != "Closure" and f.thir and not f.derived]
            byname = {f.key.split("::")[-1]: f for f in ms}

            def sig(f):
                ins = [p[2] for p in T.param_ids(f)]
                return ins, f.j.get("output") or ""
            cat_ty = None
            tk = [f for f in self.F.fns if f.evaluator == self.ev and re.search(r"::token::Token::\w+$", f.key) and f.thir and not f.derived and f.kind != "Closure"]
            gp = next((f for f in tk if f.key.endswith("::get_oper_prec")), None)
            if gp is None:
                c = [f for f in tk if len(T.param_ids(f)) == 1 and "utils::" in (f.j.get("output") or "") and not (f.j.get("output") or "").startswith("std::")]
                gp = c[0] if len(c) == 1 else None
            if gp is not None:
                out["get_oper_prec"] = gp
                cat_ty = gp.j.get("output")
            node_ty = "%s::ast::Node" % self.ev
            tok_ty = "%s::token::Token" % self.ev
            R = lambda x: "std::result::Result<%s, utils::parse_error::ParseError>" % x

            def pick(name, pred, among=None):
                if name in byname:
                    out[name] = byname[name]
                    return
                c = [f for f in (among if among is not None else ms) if f.key.split("::")[-1] not in SCHEMA_FNS and pred(f) and f not in out.values()]
                if len(c) == 1:
                    out[name] = c[0]
            def calls(f):
                t = self._raw_calls(f)
                return t
            pick("new", lambda f: False)
            pick("parse", lambda f: f.j.get("public") and sig(f)[1] == R(node_ty) and len(sig(f)[0]) == 1)
            pick("get_next_token", lambda f: len(sig(f)[0]) == 1 and sig(f)[1] == R("()"))
            pick("check_paren", lambda f: sig(f)[0][1:] == [tok_ty] and sig(f)[1] == R("()"))
            pick("generate_ast", lambda f: cat_ty and sig(f)[0][1:] == [cat_ty] and sig(f)[1] == R(node_ty))
            ga = out.get("generate_ast")
            ga_calls = calls(ga) if ga is not None else []
            pick("parse_number", lambda f: len(sig(f)[0]) == 1 and sig(f)[1] == R(node_ty) and not f.j.get("public") and f.path in ga_calls)
            pick("convert_token_to_node", lambda f: sig(f)[0][1:] == [node_ty] and sig(f)[1] == R(node_ty) and f.path in ga_calls)
            pick("implicit_multiply", lambda f: sig(f)[0][1:] == [node_ty] and sig(f)[1] == R(node_ty) and f.path not in ga_calls)
            pick("function_static_arguments", lambda f: len(sig(f)[0]) == 2 and sig(f)[0][1] in ("i32", "usize", "u32", "i64", "u8") and sig(f)[1] == R("std::vec::Vec<%s>" % node_ty))
            pick("function_arguments", lambda f: len(sig(f)[0]) == 1 and sig(f)[1] == R("std::vec::Vec<%s>" % node_ty))
            pick("find_item_list", lambda f: len(sig(f)[0]) >= 4 and sig(f)[0][1:3] == [tok_ty, tok_ty])
            pick("get_enclosed_elements_with_impl_mult", lambda f: cat_ty and len(sig(f)[0]) == 4 and sig(f)[0][1] == cat_ty and sig(f)[0][2] == tok_ty)
            pick("get_enclosed_elements_with_impl_mult", lambda f: len(sig(f)[0]) == 3 and sig(f)[0][1] == tok_ty and node_ty in sig(f)[0][2] and sig(f)[1] == R(node_ty))
            # a bracket helper without a level parameter: the level is the constant it hands to generate_ast
            fe = out.get("get_enclosed_elements_with_impl_mult")
            if fe is not None and ga is not None and cat_ty and cat_ty not in sig(fe)[0]:
                lv = []

                def w_(e):
                    if isinstance(e, dict):
                        if e.get("k") == "call" and e.get("fn") and (e["fn"].get("inst") or e["fn"].get("def")) == ga.path and len(e.get("args", [])) == 2:
                            a = e["args"][1]
                            while isinstance(a, dict) and a.get("k") in ("scope", "use", "expr") and isinstance(a.get("e"), dict):
                                a = a["e"]
                            lv.append(a.get("variant") if isinstance(a, dict) and a.get("k") == "adt" and a.get("adt") == cat_ty else None)
                        for v in e.values():
                            w_(v)
                    elif isinstance(e, list):
                        for v in e:
                            w_(v)
                w_(T.fold(fe.thir["body"]))
                if len(lv) == 1 and lv[0]:
                    self._cache["encl_fixed_cat"] = (cat_ty.split("::")[-1], lv[0])
            self._cache["roles"] = out
            ren = {}
            for canon, f in out.items():
                actual = f.key.split("::")[-1]
                if actual != canon:
                    ren[("Token." if canon == "get_oper_prec" else "P.") + actual] = ("Token." if canon == "get_oper_prec" else "P.") + canon
            self._cache["rename"] = ren
            return out
        finally:
            self._cache["roles_busy"] = False

    def _raw_calls(self, f):
        """paths of the crate functions called in f (resolved callees of the THIR call expressions)"""
        out = []

        def w(e):
            if isinstance(e, dict):
                if e.get("k") == "call" and e.get("fn"):
                    fj = e["fn"]
                    out.append(fj.get("inst") or fj.get("def") or "")
                for v in e.values():
                    w(v)
            elif isinstance(e, list):
                for v in e:
                    w(v)
        w(f.thir)
        return out

    def local(self, t):
        """shorten crate-local names and give renamed schema functions their canonical names"""
        t = local_names(t, self.ev)
        self.roles()
        ren = dict(self._cache.get("rename") or {})
        ren.update(getattr(self.F, "cat_atom_rename", {}))
        cpath = getattr(self.F, "cat_path_rename", None)
        fixed = self._cache.get("encl_fixed_cat")
        if fixed:
            fe = self._cache["roles"]["get_enclosed_elements_with_impl_mult"]
            nm = "P." + fe.key.split("::")[-1]
            catlast, fixed = fixed

            def rf(x):
                if isinstance(x, tuple):
                    x = tuple(rf(y) for y in x)
                    if len(x) == 5 and x[0] == "call" and x[1] == nm and x[2] == SELF:
                        return x[:3] + (("ctor", "%s::%s" % (catlast, fixed)),) + x[3:]
                return x
            t = rf(t)
        if not ren and not cpath:
            return t
        if cpath:
            def r0(x):
                if isinstance(x, tuple):
                    return tuple(r0(y) for y in x)
                if isinstance(x, str) and cpath[0] in x:
                    return x.replace(cpath[0], cpath[1])
                return x
            t = r0(t)

        def r(x):
            if isinstance(x, tuple):
                return tuple(r(y) for y in x)
            if isinstance(x, str) and x in ren:
                return ren[x]
            return x
        return r(t)

    def fn_term(self, f, inline_pure=False, eval_fn=None):
        key = (f.path, inline_pure, eval_fn)
        if key in self._cache:
            return self._cache[key]
        body = T.body_of(f)
        ctx = T.Ctx(inline_pure=inline_pure, eval_fn=eval_fn)
        for (vid, nm, ty) in T.param_ids(f):
            if vid is not None:
                ctx.env[vid] = ("param", nm)
        t = self.TR.term(body, ctx)
        t = self._fold_data_consts(t)
        t = T.alpha(T.normalise(t))
        t = self.local(t)
        self._cache[key] = t
        return t

    def _fold_data_consts(self, t):
        """a crate-local `const` whose value is an array of character / number literals is that array (a named table)"""
        if not isinstance(t, tuple):
            return t
        if len(t) == 3 and t[0] == "const" and isinstance(t[1], str) and t[2] is None:
            nm = re.split(r"::|\.", t[1])[-1]
            c = [g for g in self.F.fns if isinstance(g.kind, str) and g.kind.startswith("Const") and g.thir and g.key.split("::")[-1] == nm and (g.evaluator == self.ev or g.key.startswith("utils::"))]
            if len(c) == 1:
                v = self.TR.term(T.body_of(c[0]), T.Ctx())
                if isinstance(v, tuple) and v and v[0] == "array" and all(isinstance(a, tuple) and a and a[0] in ("char", "lit", "str") for a in v[1:]):
                    return v
            return t
        return tuple(self._fold_data_consts(x) for x in t)

    # ---- eval arms --------------------------------------------------------
    def eval_fn(self):
        """the tree-walk function: `ast::eval`, or the function it merely forwards its argument to
        (`pub fn eval(e: Node) { eval_ref(&e) }`)"""
        if "walker" in self._cache:
            return self._cache["walker"]
        f = self.fn("::ast::eval")
        names = ()
        if f is not None and f.thir:
            names = (f.path,)
            for _ in range(2):
                body = T.body_of(f)
                pid = T.param_ids(f)[0][0]
                if T.find_match_on(body, lambda s: T.strip_wrappers(s).get("k") == "var" and T.strip_wrappers(s).get("id") == pid) is not None:
                    break
                t = T.strip_tail_returns(T.normalise(self.TR.term(body, T.Ctx())))
                pn = T.param_ids(f)[0][1]
                g = None
                if isinstance(t, tuple) and len(t) == 3 and t[0] == "call" and t[2] in (("var", pn), ("param", pn)):
                    g = self.F.by_key.get(t[1])
                if g is None or not g.thir or g.evaluator != self.ev:
                    break
                f = g
                names = names + (g.path,)
        self._cache["walker"] = f
        self._cache["walker_names"] = names
        return f

    def eval_names(self):
        """paths of the entry `eval` and the walker it forwards to: a `?`-propagated call of either is `(ev x)`"""
        self.eval_fn()
        n = self._cache.get("walker_names", ())
        return n if len(n) != 1 else n[0]

    def eval_arms(self):
        """dict ctor-name -> normalised term of the arm (children are C0, C1; eval(child)? is (ev Ci))."""
        if "eval_arms" in self._cache:
            return self._cache["eval_arms"]
        f = self.eval_fn()
        out = {}
        if f is None:
            self.issue("T_eval", self.ev, "no ast::eval function")
            return out
        body = T.body_of(f)
        pid = T.param_ids(f)[0][0]
        m = T.find_match_on(body, lambda s: T.strip_wrappers(s).get("k") == "var" and T.strip_wrappers(s).get("id") == pid)
        if m is None:
            self.issue("T_eval", f.key, "no match on the Node parameter")
            return out
        self._cache["eval_match_is_tail"] = True
        # `Ok(match node { A => x, .. })`: the constructor hoisted out of the arms is put back into each arm
        hoisted_ok = False
        b_ = body
        while isinstance(b_, dict) and b_ is not m:
            if b_.get("k") == "block" and not b_.get("stmts") and b_.get("tail"):
                b_ = b_["tail"]
            elif b_.get("k") in ("scope", "use", "expr", "nevertoany") and isinstance(b_.get("e"), dict):
                b_ = b_["e"]
            elif b_.get("k") == "adt" and b_.get("adt") == "std::result::Result" and b_.get("variant") == "Ok" and len(b_.get("fields", [])) == 1 and not hoisted_ok:
                hoisted_ok = True
                b_ = b_["fields"][0]["e"]
            else:
                break
        hoisted_ok = hoisted_ok and b_ is m
        for a in m["arms"]:
            ctx = T.Ctx(eval_fn=self.eval_names(), inline_pure=True)
            binders = []
            p = T.pat_term(a["pat"], ctx, binders)
            for i, (vid, nm, orig) in enumerate(binders):
                ctx.env[vid] = ("C%d" % i,)
            raw = self.TR.term(a["body"], ctx)
            t = T.alpha(T.strip_tail_returns(T.normalise(("Ok", raw) if hoisted_ok else raw)))
            t = self.local(t)
            t = self.canon_result(t)
            for _ in range(4):
                t2 = self.canon_result(self.inline_tail(self.inline_helpers(t)))
                if t2 == t:
                    break
                t = t2
            t = T.iflet_some_match(t)
            names = self.arm_ctor_names(a["pat"])
            if not names:
                self.issue("T_eval", f.key, "arm pattern is not a plain Node constructor: %s" % T.show(p))
                continue
            for n in names:
                out[n] = {"term": t, "nbind": len(binders), "line": a["sp"][0], "guard": a.get("guard") is not None, "pat": p}
        self._cache["eval_arms"] = out
        return out

    # ---- interprocedural inlining ------------------------------------------------
    def resolve_local(self, name):
        """crate-local function a (shortened or raw) call name refers to, or None"""
        if not isinstance(name, str):
            return None
        if name.startswith("Ast."):
            f = self._fn_by_suffix("::ast::" + name[4:])
            if f is None and re.match(r"^\w+$", name[4:]):
                c = [g for k, g in self.F.by_key.items() if g.evaluator == self.ev and g.kind != "Closure" and re.match(r"^%s::(?!parser::|token::|tokenizer::|number::)\w+::%s$" % (self.ev, re.escape(name[4:])), k)]
                f = c[0] if len(c) == 1 else None
            return f
        if name.startswith("Token."):
            if name[6:] in ("get_oper_prec",):
                return None     # the token -> category table is read as a table (prec_table), not inlined
            return self.fn("::token::Token::" + name[6:])
        if name.startswith("P.") and getattr(self, "_inline_parser", False) and name[2:] not in SCHEMA_FNS:
            return self.fn("::parser::Parser::" + name[2:])
        if name.startswith("Lex.") and getattr(self, "_inline_lexer", False) and not name.endswith(("Tokenizer::new", "::next", "integer_or_float")):
            c = [f for k, f in self.F.by_key.items() if f.evaluator == self.ev and "::tokenizer::" in k and k.endswith("::" + name[4:].split("::")[-1]) and f.kind != "Closure"]
            return c[0] if len(c) == 1 else None
        if name.startswith(("P.", "Lex.")):
            return None
        if name.startswith("utils.") and name[6:] in UTILS_NAMED:
            return None
        if name.startswith("utils."):
            c = [f for k, f in self.F.by_key.items() if re.match(r"^utils::\w+::%s$" % re.escape(name[6:]), k) and f.kind != "Closure"]
            return c[0] if len(c) == 1 else None
        f = self.F.by_key.get(name)
        if f is not None and f.kind != "Closure" and (f.evaluator == self.ev or f.key.startswith("utils::")):
            return f
        return None

    def parser_term(self, f):
        """term of a parser function with the non-schema helper methods (and Token predicates, utils helpers) inlined"""
        key = ("parser_term", f.path)
        if key in self._cache:
            return self._cache[key]
        t = self.fn_term(f)
        self._inline_parser = True
        try:
            for _ in range(4):
                t2 = self.inline_helpers(t)
                if self._returns_result(f):
                    t2 = T.monad_tail(T.strip_tail_returns(self.inline_tail(t2)), ())
                t2 = T.alpha(T.normalise(self.beta_all(t2)))
                if t2 == t:
                    break
                t = t2
        finally:
            self._inline_parser = False
        self._cache[key] = t
        return t

    def lexer_term(self, f):
        """Tokenizer::next with the tokenizer's own helper methods and utils helpers (look-ahead, skip, scanners) inlined"""
        key = ("lexer_term", f.path)
        if key in self._cache:
            return self._cache[key]
        t = self.fn_term(f, inline_pure=False)
        self._inline_lexer = True
        try:
            for _ in range(4):
                t2 = T.alpha(T.normalise(self.beta_all(self.inline_helpers(t))))
                if t2 == t:
                    break
                t = t2
        finally:
            self._inline_lexer = False
        self._cache[key] = t
        return t

    def deep_term(self, f):
        """function term with the crate-local helpers it calls inlined and Result/Option combinators in canonical form"""
        key = ("deep_term", f.path)
        if key not in self._cache:
            t = self.fn_term(f, inline_pure=True)
            for _ in range(4):
                t2 = self.canon_result(self.inline_helpers(t))
                if t2 == t:
                    break
                t = t2
            self._cache[key] = t
        return self._cache[key]

    def flat_term(self, f):
        """parser_term with the single-use immutable bindings (v<k>) substituted into their use: the dataflow
        expression, for identity-flow rules that do not care in which statement a value is computed"""
        t = self.parser_term(f)
        items = list(t[1:]) if isinstance(t, tuple) and t and t[0] == "seq" else [t]
        env_, kept = {}, []
        for it in items:
            if isinstance(it, tuple) and len(it) == 3 and it[0] == "let" and isinstance(it[1], str) and it[1].startswith("v"):
                n = sum(1 for s_ in subterms(t) if s_ == ("var", it[1]))
                if n == 1:
                    env_[it[1]] = it[2]
                    continue
            kept.append(it)
        flat = tuple(kept)
        for _ in range(len(env_) + 1):
            flat = subst_vars(flat, env_)
        return flat[0] if len(flat) == 1 else ("seq",) + flat

    def rec_names(self):
        wn = self.eval_names()
        wn = wn if isinstance(wn, tuple) else ((wn,) if wn else ())
        return set(wn) | {"Ast." + p_.split("::")[-1] for p_ in wn}

    def canon_result(self, t):
        """tail-position Result combinators, recursive calls and function values in canonical form"""
        rn = self.rec_names()
        for _ in range(3):
            t2 = T.alpha(T.normalise(self.beta_all(T.mark_ev(T.monad_tail(T.strip_tail_returns(t), rn), rn))))
            if t2 == t:
                break
            t = t2
        return t

    def beta_all(self, t):
        if isinstance(t, tuple):
            return self.beta(tuple(self.beta_all(x) for x in t))
        return t

    def inline_tail(self, t, depth=0):
        """like inline_helpers, for a call in tail position: a `return` inside the helper is then a return of the
        caller, so helpers with early returns inside loops can be inlined too"""
        if not isinstance(t, tuple) or not t or depth > 4:
            return t
        if t[0] == "seq":
            return t[:-1] + (self.inline_tail(t[-1], depth),)
        if t[0] == "if" and len(t) == 4:
            return ("if", t[1], self.inline_tail(t[2], depth), self.inline_tail(t[3], depth))
        if t[0] == "match":
            return t[:2] + tuple(a[:-1] + (self.inline_tail(a[-1], depth),) for a in t[2:])
        if t[0] == "call":
            r = self._inline_call(t, depth, (), allow_returns=True)
            if r is not None:
                return self.inline_tail(self.canon_result(r), depth + 1)
        return t

    def inline_helpers(self, t, depth=0, stack=()):
        """Inline calls to non-recursive crate-local helper functions (free functions of the ast module or any
        other module of the evaluator, inherent methods of its types, utils helpers), beta-reducing function
        pointers and closures passed to them -- so that extracting code into a helper, or parameterising a helper
        by the operation, does not change an arm's summary.  The evaluator itself and the helpers the rules know by
        name (gcd, lcm, gamma, lambert_w, ilog) stay calls; `eval(x)?` inside a helper is the same `(ev x)`."""
        if not isinstance(t, tuple) or depth > 6:
            return t
        t = tuple(self.inline_helpers(x, depth, stack) for x in t)
        t = self.beta(t)
        r = self._inline_call(t, depth, stack)
        if r is not None:
            return self.inline_helpers(r, depth + 1, stack + (self._last_inlined,))
        return t

    def _inline_call(self, t, depth, stack, allow_returns=False):
        if len(t) >= 2 and t[0] == "call" and isinstance(t[1], str):
            f = self.resolve_local(t[1])
            ef = self.eval_fn()
            if f is not None and not f.derived and f.thir and (ef is None or f.path not in self._cache.get("walker_names", ())) and f.short not in NAMED_HELPERS.get(self.ev, ()) and f.path not in stack \
                    and not f.j.get("impl_trait"):
                # parser methods mutate `self`: bindings that read it must stay where they are (no let-inlining)
                body = self.fn_term(f, inline_pure=not t[1].startswith("P."), eval_fn=self.eval_names() if ef else None)
                body = self.canon_result(body) if self._returns_result(f) else T.strip_tail_returns(body)
                params = [nm for (_, nm, _) in T.param_ids(f)]
                rets = [s_ for s_ in subterms(body) if isinstance(s_, tuple) and s_ and s_[0] == "return" and s_ != ("return", ("Err",))]
                if (allow_returns or not rets) and T.term_size(body) <= 900 and len(params) == len(t) - 2 and all(params):
                    self._fresh = getattr(self, "_fresh", 0) + 1
                    body = freshen(body, self._fresh)
                    mapping, lets = {}, []
                    mut_params = {p_["pat"].get("name") for p_ in f.thir["params"] if isinstance(p_.get("pat"), dict) and p_["pat"].get("k") == "bind" and "Mut" in str(p_["pat"].get("mode", "")).split(",")[-1]}
                    for i_, (pn, arg) in enumerate(zip(params, t[2:])):
                        uses = sum(1 for s_ in subterms(body) if s_ == ("param", pn))
                        assigned = any(isinstance(s_, tuple) and ((len(s_) == 3 and s_[0] == "set" and s_[1] == ("param", pn)) or (len(s_) == 5 and s_[0] == "setop" and s_[3] == ("param", pn))) for s_ in subterms(body))
                        trivial = not isinstance(arg, tuple) or arg[0] in ("var", "param", "lit", "const", "fnref", "lambda", "ctor") and T.term_size(arg) <= 3 or (len(arg) == 1)
                        if assigned or (pn in mut_params and uses > 0 and not (isinstance(arg, tuple) and arg and arg[0] == "var" and isinstance(arg[1], str) and arg[1].startswith("m"))):
                            nm = "m%d" % (1000 * self._fresh + 900 + i_)      # `mut` parameter: a mutable local initialised with the argument
                            lets.append(("let", nm, arg))
                            mapping[pn] = ("var", nm)
                        elif uses > 1 and not trivial and (T._reads_mutable(arg) or any(T.is_effect_call(s_) for s_ in subterms(arg))):
                            # the argument is evaluated once, before the body (as in the call)
                            nm = "v%d" % (1000 * self._fresh + 900 + i_)
                            lets.append(("let", nm, arg))
                            mapping[pn] = ("var", nm)
                        else:
                            mapping[pn] = arg
                    inl = T.subst_params(body, mapping)
                    if lets:
                        inl = ("seq",) + tuple(lets) + (inl,)
                    self._last_inlined = f.path
                    if not hasattr(self, "_inlined_paths"):
                        self._inlined_paths = set()
                    self._inlined_paths.add(f.path)
                    return T.normalise(inl)
        return None


    def _returns_result(self, f):
        ty = f.j.get("output") or ""
        return isinstance(ty, str) and ty.startswith("std::result::Result")

    def beta(self, t):
        """(f)(args) for a known f: function item, tuple-variant constructor or closure"""
        if not isinstance(t, tuple) or not t:
            return t
        fn, args = None, None
        if t[0] == "icall" and len(t) >= 2:
            fn, args = t[1], t[2:]
        elif t[0] == "call" and isinstance(t[1], str) and re.search(r"ops::Fn(Once|Mut)?>::call(_once|_mut)?$", t[1]) and len(t) == 4 and isinstance(t[3], tuple) and t[3][:1] == ("tuple",):
            fn, args = t[2], t[3][1:]
        if fn is None or not isinstance(fn, tuple):
            return t
        if fn[0] == "fnref" and isinstance(fn[1], str):
            name = fn[1]
            m_ = re.search(r"(?:^|[.:])(\w+::[A-Z]\w*)$", name)
            if m_ and self.resolve_local(name) is None and m_.group(1).split("::")[0] in self._adt_names():
                return ("ctor", m_.group(1)) + tuple(args)
            return ("call", name) + tuple(args)
        if fn[0] == "lambda" and len(fn) == 3 and len(fn[1]) == len(args) and all(isinstance(b_, tuple) and b_[0] == "bind" for b_ in fn[1]):
            from .tables import subst_vars as _sv
            return T.normalise(_sv(fn[2], {b_[1]: a_ for b_, a_ in zip(fn[1], args)}))
        return t

    def _adt_names(self):
        if "adt_names" not in self._cache:
            self._cache["adt_names"] = {a["path"].split("::")[-1] for a in self.F.doc["adts"]}
        return self._cache["adt_names"]

    @staticmethod
    def arm_ctor_names(pat):
        k = pat.get("k")
        if k == "variant":
            return [pat["variant"]]
        if k == "or":
            out = []
            for p in pat["pats"]:
                out += EvTables.arm_ctor_names(p)
            return out
        if k in ("deref", "derefpat"):
            return EvTables.arm_ctor_names(pat["sub"])
        return []

    def helper_fn(self, name):
        return self.resolve_local("Ast." + name) or self._fn_by_suffix("::ast::" + name)

    def helper_term(self, name, inline_pure=True):
        f = self.helper_fn(name)
        if f is None:
            return None
        return self.fn_term(f, inline_pure=inline_pure)

    # ---- node / token enums ----------------------------------------------
    def adt(self, suffix):
        for a in self.F.doc["adts"]:
            if a["path"] == "%s::%s" % (self.ev, suffix):
                return a
        return None

    # ---- precedence -------------------------------------------------------
    def prec_table(self):
        """dict Token-variant -> category name, plus '_' default."""
        f = self.fn("::token::Token::get_oper_prec")
        if f is None:
            self.issue("T_prec", self.ev, "no Token::get_oper_prec")
            return {}
        t = self.fn_term(f, inline_pure=True)
        out = {}
        if not (isinstance(t, tuple) and t[0] == "match"):
            self.issue("T_prec", f.key, "body is not a single match: %s" % T.show(t)[:200])
            return {}
        for arm in t[2:]:
            pat, val = arm[0], arm[-1]
            if len(arm) != 2:
                self.issue("T_prec", f.key, "guarded arm")
                continue
            e = M("(ctor ?c)", val)
            if e is None or not e["?c"].startswith("OperatorCategory::"):
                self.issue("T_prec", f.key, "arm value is not a category constant: %s" % T.show(val))
                continue
            cat = e["?c"].split("::")[1]
            for v in self._pat_variants(pat):
                if v not in out:
                    out[v] = cat
        return out

    def prec_table_raw(self):
        """Token-variant -> category variant as written (whatever the enum and its variants are called)"""
        f = self.fn("::token::Token::get_oper_prec")
        if f is None:
            return {}
        t = T.normalise(self.TR.term(T.body_of(f), T.Ctx(inline_pure=True)))
        out = {}
        if not (isinstance(t, tuple) and t[0] == "match"):
            return {}
        for arm in t[2:]:
            if len(arm) != 2:
                continue
            e = M("(ctor ?c)", arm[-1])
            if e is None:
                continue
            for v in self._pat_variants(arm[0]):
                if v not in out:
                    out[v] = e["?c"].split("::")[-1]
        return out

    def _pat_variants(self, pat):
        if pat == "_":
            return ["_"]
        if isinstance(pat, tuple):
            if pat[0] == "pvar":
                return [pat[1].split("::", 1)[1]]
            if pat[0] == "por":
                out = []
                for p in pat[1:]:
                    out += self._pat_variants(p)
                return out
            if pat[0] == "bind":
                return ["_"]
        return ["?"]

    def category_of(self, tokvar):
        pt = self.prec_table()
        return pt.get(tokvar, pt.get("_"))


CANON_CAT_PATH = "utils::operator_category::OperatorCategory"


def catinfo(F):
    """the precedence-category enum: by its conventional path, otherwise the field-less utils enum that the
    tokens' category method returns"""
    if hasattr(F, "_catinfo"):
        return F._catinfo
    adt = None
    for a in F.doc["adts"]:
        if a["path"] == CANON_CAT_PATH:
            adt = a
    if adt is None:
        outs = set()
        for f in F.fns:
            if re.search(r"::token::Token::\w+$", f.key) and f.thir and not f.derived and len(f.j.get("inputs") or []) == 1:
                outs.add(f.j.get("output"))
        c = [a for a in F.doc["adts"] if a["path"] in outs and a.get("kind") == "Enum" and all(not v["fields"] for v in a["variants"])]
        adt = c[0] if len(c) == 1 else None
    F._catinfo = adt
    return adt


def level_order(F, adt):
    """A hand-written `impl PartialOrd` that compares `self.level()` with `other.level()`, level being a match from
    the variants to distinct integer literals: the order is the order of the levels.  Returns the variant names
    sorted by level, or None."""
    last = adt["path"].split("::")[-1]
    pc = None
    for f in F.fns:
        if f.j.get("impl_trait") == "std::cmp::PartialOrd" and (f.j.get("impl_self") or "").endswith(last) and not f.derived and f.thir:
            if f.key.endswith("::partial_cmp"):
                pc = f
            else:
                return None        # lt/le/gt/ge overridden by hand: not analysed
    if pc is None:
        return None
    t = T.normalise(T.Translator(F).term(T.body_of(pc), T.Ctx(inline_pure=True)))
    ps = [p[1] for p in T.param_ids(pc)]
    A = ("|", ("param", ps[0]), ("var", ps[0]))
    B = ("|", ("param", ps[1]), ("var", ps[1]))
    e = M(("call", "?cmp", ("call", "?lv", A), ("call", "?lv", B)), t)
    if e is None or not re.match(r"^<(u8|u16|u32|u64|usize|i8|i16|i32|i64) as cmp::(PartialOrd>::partial_cmp)$", str(e["?cmp"])):
        e = M(("Some", ("call", "?cmp", ("call", "?lv", A), ("call", "?lv", B))), t)
        if e is None or not re.match(r"^<(u8|u16|u32|u64|usize|i8|i16|i32|i64) as cmp::Ord>::cmp$", str(e["?cmp"])):
            return None
    lf = F.by_key.get(e["?lv"]) or next((f for f in F.fns if f.key.endswith("::" + str(e["?lv"]).split("::")[-1]) and (f.j.get("impl_self") or f.key).find(last) >= 0 and f.thir and not f.j.get("impl_trait")), None)
    if lf is None:
        return None
    lt = T.normalise(T.Translator(F).term(T.body_of(lf), T.Ctx(inline_pure=True)))
    if not (isinstance(lt, tuple) and lt[0] == "match"):
        return None
    lv = {}
    for arm in lt[2:]:
        if len(arm) != 2 or not (isinstance(arm[1], tuple) and arm[1][0] == "lit"):
            return None
        pats = arm[0][1:] if arm[0][0] == "por" else (arm[0],)
        for p_ in pats:
            if not (isinstance(p_, tuple) and p_[0] == "pvar"):
                return None
            lv[p_[1].split("::")[-1]] = int(arm[1][1])
    names = [v["name"] for v in adt["variants"]]
    if set(lv) != set(names) or len(set(lv.values())) != len(lv):
        return None
    return sorted(names, key=lambda n: lv[n])


def category_order(F):
    """(variants from loosest to tightest under the type's PartialOrd, order is trustworthy?, other manual impls).
    Derived PartialOrd: declaration order.  Hand-written comparison of integer levels: order of the levels."""
    adt = catinfo(F)
    if adt is None:
        return None, False, []
    last = adt["path"].split("::")[-1]
    derived = False
    manual = []
    for i in F.doc["impls"]:
        if i["self_ty"].endswith(last) and i["trait"] in ("std::cmp::PartialOrd", "std::cmp::Ord", "std::cmp::PartialEq"):
            if i["trait"] == "std::cmp::PartialOrd" and i["derived"]:
                derived = True
            elif not i["derived"]:
                manual.append(i["trait"])
    names = [v["name"] for v in adt["variants"]]
    if not derived and manual == ["std::cmp::PartialOrd"]:
        lo = level_order(F, adt)
        if lo is not None:
            names, derived, manual = lo, True, []
    ren = getattr(F, "cat_variant_rename", {})
    return [ren.get(n, n) for n in names], derived, manual


# ---------------------------------------------------------------------------
# parser arm summaries

SELF = ("param", "self")


def classify_effect(c):
    """c = (call P.name self args...) -> event tuple"""
    name = c[1]
    args = c[3:] if len(c) > 2 and c[2] == SELF else c[2:]
    if name == "P.get_next_token":
        return ("next",)
    if name == "P.generate_ast":
        return ("ast", cat_name(args[0]))
    if name == "P.function_static_arguments":
        n = args[0]
        return ("fsa", int(n[1]) if isinstance(n, tuple) and n[0] == "lit" else T.show(n))
    if name == "P.function_arguments":
        return ("fargs",)
    if name == "P.find_item_list":
        return ("find", tok_name(args[0]), tok_name(args[1]), cat_name(args[2]))
    if name == "P.check_paren":
        return ("check", tok_name(args[0]))
    if name == "P.get_enclosed_elements_with_impl_mult":
        return ("encl", cat_name(args[0]), tok_name(args[1]), args[2])
    if name == "P.implicit_multiply":
        return ("impl", args[0])
    if name == "P.convert_token_to_node":
        return ("ctn", args[0])
    if name == "P.parse_number":
        return ("pnum",)
    if name == "P.parse":
        return ("parse",)
    return ("call", name) + tuple(args)


SELF_CUR = ("field", ("param", "self"), "current_token")


def cat_name(t):
    if t == ("curcat",):
        return "curcat"
    e = M("(ctor ?c)", t)
    if e is not None and isinstance(e["?c"], str) and e["?c"].startswith("OperatorCategory::"):
        return e["?c"].split("::")[1]
    e = M("(param ?p)", t)
    if e is not None:
        return "param:" + e["?p"]
    return "?" + T.show(t)


def tok_name(t):
    e = M("(ctor ?c)", t)
    if e is not None and isinstance(e["?c"], str) and e["?c"].startswith("Token::"):
        return e["?c"].split("::")[1]
    e = M("(param ?p)", t)
    if e is not None:
        return "param:" + e["?p"]
    return "?" + T.show(t)


def subst_vars(t, env):
    if isinstance(t, tuple):
        if len(t) == 2 and t[0] == "var" and t[1] in env:
            return env[t[1]]
        return tuple(subst_vars(x, env) for x in t)
    return t


def summarise(t):
    """ANF'd function/arm body -> (events, tail).  events: list of event tuples (effects in
    order, each with result symbol R<k> if bound); tail: one of
      ("ok", term) ("err",) ("val", term) ("tailcall", event) ("if", cond, sumA, sumB)
      ("match", scrut, [(pat, sum)...]) ("ret", sum) ("loop", ...) ("opaque", term)"""
    env = {}
    events = []
    counter = [0]
    outer_effects = [False]

    def eff_of(x):
        """x is (try (call P..)) or (call P..): returns (event, tried)"""
        if isinstance(x, tuple) and x and x[0] == "try" and T.is_effect_call(x[1]):
            return classify_effect(subst_vars(x[1], env)), True
        if T.is_effect_call(x):
            return classify_effect(subst_vars(x, env)), False
        return None, False

    def tail_of(x):
        x0 = x
        if isinstance(x, tuple) and x and x[0] == "return":
            return ("ret", tail_of(x[1]))
        ev, tried = eff_of(x)
        if ev is not None:
            return ("tailcall", ev, tried)
        x = subst_vars(x, env)
        if M("(Err)", x) is not None:
            return ("err",)
        e = M("(Ok ?v)", x)
        if e is not None:
            return ("ok", e["?v"])
        if isinstance(x, tuple) and x and x[0] == "if" and len(x) == 4:
            return ("if", x[1], summarise(x0[2]) if False else sub(x0[2]), sub(x0[3]))
        if isinstance(x, tuple) and x and x[0] == "match":
            return ("match", x[1], [(a[0], sub(a[-1])) for a in x0[2:]])
        if isinstance(x, tuple) and x and x[0] in ("loop", "for", "break", "continue"):
            return ("opaque", x)
        return ("val", x)

    def sub(x):
        # summarise a branch with the current environment visible
        saved_outer = outer_effects[0]
        outer_effects[0] = outer_effects[0] or any(e_[0] not in ("branch", "cond", "stmt") for e_ in events)
        try:
            return sub_(x)
        finally:
            outer_effects[0] = saved_outer

    def sub_(x):
        saved_events = list(events)
        saved_counter = counter[0]
        saved_env = dict(env)
        del events[:]
        r = run(x)
        evs = list(events)
        del events[:]
        events.extend(saved_events)
        counter[0] = saved_counter
        env.clear()
        env.update(saved_env)
        return (evs, r)

    def run(x):
        items = list(x[1:]) if isinstance(x, tuple) and x and x[0] == "seq" else [x]
        for i, it in enumerate(items):
            last = i == len(items) - 1
            if isinstance(it, tuple) and it and it[0] == "let":
                name, init = it[1], it[2]
                ev, tried = eff_of(init)
                if ev is not None:
                    counter[0] += 1
                    sym = ("R%d" % counter[0],)
                    events.append(ev + (("tried",) if tried else ("untried",)))
                    env[name] = sym
                    continue
                if isinstance(init, tuple) and init and init[0] in ("if", "match", "seq"):
                    # value computed by a branching expression: keep as a conditional value
                    br = sub(init)
                    counter[0] += 1
                    sym = ("R%d" % counter[0],)
                    events.append(("branch", br))
                    env[name] = sym
                    continue
                if isinstance(init, tuple) and init and init[0] == "try" and isinstance(init[1], tuple) and init[1][0] == "var":
                    env[name] = subst_vars(init[1], env)
                    continue
                e_rm = M(("call", "Vec::remove", "?v", ("lit", "?k", "usize")), subst_vars(init, env))
                if e_rm is not None:
                    # taking an element out of a vector is order-sensitive: keep it as an event
                    counter[0] += 1
                    sym = ("R%d" % counter[0],)
                    events.append(("vecremove", e_rm["?v"], int(e_rm["?k"]), sym))
                    env[name] = sym
                    continue
                if init == ("call", "Token.get_oper_prec", SELF_CUR) and not any(e_[0] not in ("branch", "cond", "stmt") for e_ in events) and not outer_effects[0]:
                    # the category of the token the arm was selected by, read before anything is consumed
                    env[name] = ("curcat",)
                    continue
                env[name] = subst_vars(init, env)
                continue
            if last:
                return tail_of(it)
            ev, tried = eff_of(it)
            if ev is not None:
                events.append(ev + (("tried",) if tried else ("untried",)))
                continue
            if isinstance(it, tuple) and it and it[0] == "try" and isinstance(it[1], tuple) and it[1][0] == "var":
                continue
            if isinstance(it, tuple) and it and it[0] == "if" and len(it) == 4:
                events.append(("cond", subst_vars(it[1], env), sub(it[2]), sub(it[3])))
                continue
            events.append(("stmt", subst_vars(it, env)))
        return ("val", ("unit",))

    tail = run(t)
    return (list(events), tail)


def show_summary(s, ind=0):
    evs, tail = s
    pad = " " * ind
    out = []
    for e in evs:
        if e[0] == "branch":
            out.append(pad + "branch:")
            out.append(show_summary(e[1], ind + 2))
        elif e[0] == "cond":
            out.append(pad + "cond %s:" % T.show(e[1]))
            out.append(show_summary(e[2], ind + 2))
            out.append(pad + "else:")
            out.append(show_summary(e[3], ind + 2))
        else:
            out.append(pad + T.show(e))
    out.append(pad + "=> " + show_tail(tail, ind))
    return "\n".join(out)


def show_tail(tail, ind=0):
    k = tail[0]
    if k == "if":
        return "if %s\n%s\n%selse\n%s" % (T.show(tail[1]), show_summary(tail[2], ind + 2), " " * ind, show_summary(tail[3], ind + 2))
    if k == "match":
        return "match %s\n%s" % (T.show(tail[1]), "\n".join("%s%s:\n%s" % (" " * ind, T.show(p), show_summary(s, ind + 2)) for p, s in tail[2]))
    if k == "ret":
        return "return " + show_tail(tail[1], ind)
    return T.show(tail)
