"""Reference tables (the hand-written oracle, DESIGN §4).  Everything is keyed by
*surface syntax* (characters and names a user types) and derived from the
property statements and the README — never from the code."""

EVS = ["eval_f64", "eval_i64", "eval_decimal", "eval_complex", "eval_number"]
ALL = set(EVS)
F, I, D, C, N = EVS
NOT_COMPLEX = {F, I, D, N}
REAL3 = {F, N, D}
TRIG = {C, N, F}

# ---- precedence (C04): loosest -> tightest
CATEGORY_ORDER = ["DefaultZero", "BitwiseOr", "BitwiseAnd", "Shift", "Additive", "Multiplicative", "Power", "Negative", "Functional"]
I64_ONLY_CATEGORIES = {"BitwiseOr", "BitwiseAnd", "Shift"}

# surface operator -> (category, evaluators offering it, kind)
BINARY_OPS = {
    "|": ("BitwiseOr", {I}),
    "&": ("BitwiseAnd", {I}),
    "<<": ("Shift", {I}),
    ">>": ("Shift", {I}),
    "+": ("Additive", ALL),
    "-": ("Additive", ALL),
    "*": ("Multiplicative", ALL),
    "/": ("Multiplicative", ALL),
    "%": ("Multiplicative", NOT_COMPLEX),
    "^": ("Power", ALL),
}
POSTFIX_OPS = {
    "°": ("Multiplicative", TRIG),
    "rad": ("Multiplicative", TRIG),
    "!": ("Functional", NOT_COMPLEX),
}
SUPERSCRIPT_CATEGORY = "Power"
PREFIX_LEVEL = "Negative"
FUNCTION_CATEGORY = "Functional"

# tokens that must have the loosest category (they never continue an expression)
NEUTRAL_SURFACES = {
    "(": ALL, ")": ALL, ",": ALL, "@": ALL,
    "⌊": REAL3, "⌋": REAL3, "⌈": REAL3, "⌉": REAL3,
    "pi": {C, N, D, F}, "π": {C, N, D, F}, "e": {C, N, D, F},
}
BRACKETS = {"(": (")", ALL, "identity"), "⌊": ("⌋", REAL3, "floor"), "⌈": ("⌉", REAL3, "ceil")}

# ---- functions: name -> (arity or "var", evaluators, alias class)
FUNCTIONS = {
    "abs(": (1, ALL), "sgn(": (1, NOT_COMPLEX), "sign(": (1, NOT_COMPLEX), "signum(": (1, NOT_COMPLEX),
    "pow(": (2, ALL), "sqrt(": (1, ALL), "root(": (2, ALL), "mod(": (2, NOT_COMPLEX),
    "exp(": (1, ALL), "exp2(": (1, ALL), "ln(": (1, ALL), "lb(": (1, ALL), "log(": (2, ALL),
    "min(": ("var", NOT_COMPLEX), "max(": ("var", NOT_COMPLEX), "avg(": ("var", NOT_COMPLEX),
    "median(": ("var", NOT_COMPLEX), "med(": ("var", NOT_COMPLEX),
    "trunc(": (1, REAL3), "truncate(": (1, REAL3), "floor(": (1, REAL3), "ceil(": (1, REAL3), "round(": (1, REAL3),
    "lambert_w(": (1, REAL3), "w(": (1, REAL3), "ilog(": (2, REAL3),
    "sin(": (1, TRIG), "asin(": (1, TRIG), "cos(": (1, TRIG), "acos(": (1, TRIG), "tan(": (1, TRIG), "atan(": (1, TRIG),
    "sinh(": (1, TRIG), "asinh(": (1, TRIG), "arsinh(": (1, TRIG), "cosh(": (1, TRIG), "acosh(": (1, TRIG), "arcosh(": (1, TRIG),
    "tanh(": (1, TRIG), "atanh(": (1, TRIG), "artanh(": (1, TRIG),
    "atan2(": (2, {F, N}), "gcd(": ("var", {I}), "lcm(": ("var", {I}),
}
ALIAS_CLASSES = [
    ["pi", "π"], ["sgn(", "sign(", "signum("], ["med(", "median("], ["trunc(", "truncate("], ["w(", "lambert_w("],
    ["asinh(", "arsinh("], ["acosh(", "arcosh("], ["atanh(", "artanh("],
]
CONSTANTS = {"pi": {C, N, D, F}, "π": {C, N, D, F}, "e": {C, N, D, F}}
SINGLE_CHAR_TOKENS = {
    "+": ALL, "-": ALL, "*": ALL, "/": ALL, "^": ALL, "(": ALL, ")": ALL, ",": ALL, "@": ALL,
    "%": NOT_COMPLEX, "!": NOT_COMPLEX, "&": {I}, "|": {I}, "°": TRIG,
    "⌊": REAL3, "⌋": REAL3, "⌈": REAL3, "⌉": REAL3, "π": {C, N, D, F},
}
MULTI_CHAR_TOKENS = {"<<": {I}, ">>": {I}, "rad": TRIG, "pi": {C, N, D, F}, "e": {C, N, D, F}}
SUPERSCRIPTS = "⁰¹²³⁴⁵⁶⁷⁸⁹"


def surfaces_for(ev):
    """Every surface symbol the evaluator must offer."""
    out = set()
    for tbl in (SINGLE_CHAR_TOKENS, MULTI_CHAR_TOKENS):
        for s, evs in tbl.items():
            if ev in evs:
                out.add(s)
    for s, (_, evs) in FUNCTIONS.items():
        if ev in evs:
            out.add(s)
    return out


def all_surfaces():
    out = set(SINGLE_CHAR_TOKENS) | set(MULTI_CHAR_TOKENS) | set(FUNCTIONS)
    return out


# foreign names that no evaluator offers (vocabulary negative probes, C03)
FOREIGN_PROBES = ["foo(", "sec(", "cot(", "log2(", "log10(", "cbrt(", "fact(", "floor", "x", "y", "inf", "nan", "tau", "E", "PI", "Pi", "Sin(",
                  "~", "=", "<", ">", "#", "$", "[", "]", "{", "}", ";", ":", "'", "\"", "\\", "_", "?", "×", "÷", "√", "∞", "−"]
