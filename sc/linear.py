"""Linear use of children (C02): in one evaluation of a node, each child is handed to the recursive evaluation at
most once, and the elements of an argument list are obtained from it at most once.  Otherwise the number of steps
is not bounded by the size of the tree (evaluating the first argument of `max` twice doubles the work at every
nesting level).  Decided on the typed THIR of the tree-walk function and its helpers by counting, along every path
(sequence = sum, branches = maximum, loop bodies = twice), for each pattern-bound variable of Node type the
walker-call sites that mention it, and for each pattern-bound collection of Nodes the sites that produce elements
from it (iteration, first/last/get/index)."""
import re
from collections import Counter
from . import thir as T
from .treewalk import strip

ELEMENT_SOURCES = {"iter", "into_iter", "first", "last", "get", "split_first", "split_last", "index", "iter_mut", "drain", "pop", "remove", "get_mut", "first_mut"}


def analyse(F, ev, walker_paths):
    node = "%s::ast::Node" % ev
    fns = [f for f in F.fns if f.evaluator == ev and f.thir and not f.derived and "::parser::" not in f.key and "::tokenizer::" not in f.key and "::token::" not in f.key]
    out = []
    nvars = 0
    for f in fns:
        body = T.fold(f.thir["body"])
        # variables of Node / collection-of-Node type bound by patterns or parameters
        nodevars, collvars = {}, {}

        def bind(p):
            if isinstance(p, dict):
                if p.get("k") == "bind" and isinstance(p.get("ty"), str):
                    if strip(p["ty"], node):
                        nodevars[p["id"]] = p["name"]
                    elif node in p["ty"] and not p["ty"].startswith(("std::result::Result", "fn(", "impl ")):
                        collvars[p["id"]] = p["name"]
                for v in p.values():
                    bind(v)
            elif isinstance(p, list):
                for v in p:
                    bind(v)

        def collect(e):
            if isinstance(e, dict):
                for k in ("pat",):
                    if k in e:
                        bind(e[k])
                for v in e.values():
                    collect(v)
            elif isinstance(e, list):
                for v in e:
                    collect(v)
        collect(f.thir.get("params"))
        collect(body)
        nvars += len(nodevars) + len(collvars)

        def mentions(e, ids):
            found = set()

            def w(x):
                if isinstance(x, dict):
                    if x.get("k") in ("var", "upvar") and x.get("id") in ids:
                        found.add(x["id"])
                    for v in x.values():
                        w(v)
                elif isinstance(x, list):
                    for v in x:
                        w(v)
            w(e)
            return found

        def root_var(e):
            while isinstance(e, dict) and e.get("k") in ("borrow", "deref", "coerce", "byuse", "cast", "use"):
                e = e["e"]
            if isinstance(e, dict) and e.get("k") == "call" and (e.get("fn") or {}).get("def") in ("std::ops::Deref::deref", "std::clone::Clone::clone", "std::convert::AsRef::as_ref", "std::borrow::Borrow::borrow", "std::vec::Vec::<T, A>::as_slice") and e.get("args"):
                return root_var(e["args"][0])
            if isinstance(e, dict) and e.get("k") in ("var", "upvar"):
                return e.get("id")
            return None

        def cmax(a, b):
            r = Counter(a)
            for k_, v_ in b.items():
                if v_ > r[k_]:
                    r[k_] = v_
            return r

        def seq(parts):
            """parts evaluated one after the other -> (cont, done)"""
            acc, done = Counter(), Counter()
            for p_ in parts:
                c_i, d_i = pc(p_)
                done = cmax(done, acc + d_i)
                if c_i is None:
                    return None, done
                acc = acc + c_i
            return acc, done

        def alt(prefix, branches):
            """prefix, then exactly one of the branches"""
            pc_, pd_ = prefix
            if pc_ is None:
                return None, pd_
            cont, done = None, Counter(pd_)
            for (c_i, d_i) in branches:
                done = cmax(done, pc_ + d_i)
                if c_i is not None:
                    cont = (pc_ + c_i) if cont is None else cmax(cont, pc_ + c_i)
            return cont, done

        def pc(e):
            """(cont, done): max uses of each variable along the paths that run through e / that leave the function in e"""
            if isinstance(e, list):
                return seq(e)
            if not isinstance(e, dict):
                return Counter(), Counter()
            k = e.get("k")
            if k == "return":
                c_, d_ = pc(e.get("e"))
                return None, cmax(d_, c_ if c_ is not None else Counter())
            if k == "block":
                return seq(list(e.get("stmts") or []) + ([e["tail"]] if e.get("tail") else []))
            if k == "if":
                return alt(pc(e.get("c")), [pc(e.get("t")), pc(e.get("e")) if e.get("e") else (Counter(), Counter())])
            if k == "match":
                return alt(pc(e.get("scrut")), [seq([a.get("guard"), a.get("body")]) for a in e.get("arms", [])] or [(Counter(), Counter())])
            if k in ("loop", "for"):
                pre = pc(e.get("iter")) if k == "for" else (Counter(), Counter())
                c_, d_ = pc(e.get("body"))
                fresh = set()

                def binders(x):
                    if isinstance(x, dict):
                        if x.get("k") == "bind" and "id" in x:
                            fresh.add(x["id"])
                        for v_ in x.values():
                            binders(v_)
                    elif isinstance(x, list):
                        for v_ in x:
                            binders(v_)
                binders(e.get("pat"))
                binders(e.get("body"))
                inner = cmax(c_ if c_ is not None else Counter(), d_)
                rep = Counter({v: (n if v in fresh else 2 * n) for v, n in inner.items()})      # a variable bound outside may be used once per iteration
                return alt(pre, [(rep, Counter())])
            here = Counter()
            parts = []
            if k == "call":
                fj = e.get("fn") or {}
                d = fj.get("def") or ""
                inst = fj.get("inst") or d
                base = re.sub(r"::<[^<>]*(?:<[^<>]*>[^<>]*)*>", "", d).split("::")[-1]
                parts = [e.get("callee")] + list(e.get("args", []))
                if inst in walker_paths or d in walker_paths:
                    for a in e.get("args", []):
                        for v in mentions(a, nodevars):
                            here[v] += 1
                elif base in ELEMENT_SOURCES and not fj.get("inst_local") and e.get("args"):
                    rv = root_var(e["args"][0])
                    if rv in collvars:
                        here[rv] += 1
            else:
                if k == "index":
                    rv = root_var(e.get("e"))
                    if rv in collvars:
                        here[rv] += 1
                for kk, v in e.items():
                    if kk in ("sp", "ty", "fn", "pat"):
                        continue
                    if isinstance(v, (dict, list)):
                        parts.append(v)
            c_, d_ = seq(parts)
            if c_ is None:
                return None, d_
            return c_ + here, d_
        cont_, done_ = pc(body)
        counts = cmax(cont_ if cont_ is not None else Counter(), done_)
        for v, n in counts.items():
            if n > 1:
                name = nodevars.get(v) or collvars.get(v)
                what = "is handed to the recursive evaluation" if v in nodevars else "yields elements"
                out.append(("%s|%s" % (f.short, name), "%s (%s)" % (f.key, f.file), "`%s` %s up to %d times on one path (a loop counts twice)" % (name, what, n)))
    return out, nvars, len(fns)
