"""Literal scanners (DESIGN §5 C19 / C06-c / C07-c / C08): analysis of the tokenizer arms that
scan digit runs, `.DIGITS` and superscript runs."""
import re
from . import thir as T
from .pat import M, parse as P, unify, subterms
from .lexer import NEXT, PEEK, EXPR

CONVERTERS = {"eval_f64": {"str::parse::<f64>"}, "eval_i64": {"str::parse::<i64>"}, "eval_decimal": {"<Decimal as std::str::FromStr>::from_str", "Decimal::from_str_exact"},
              "eval_complex": {"str::parse::<f64>"}, "eval_number": {"str::parse::<f64>", "str::parse::<i64>", "Lex.integer_or_float"}}


def converter_calls(t):
    out = []
    for s in subterms(t):
        if isinstance(s, tuple) and len(s) >= 2 and s[0] == "call" and isinstance(s[1], str) and (s[1].startswith("str::parse") or "FromStr" in s[1] or s[1].startswith("Lex.") or s[1] == "Decimal::from_str_exact" or "from_str_radix" in s[1]):
            out.append(s)
    return out


def failure_modes(t):
    """how the result of each converter call is consumed: 'none' (-> tokenizer None -> Err), 'panic', 'default', 'fallback'"""
    modes = []

    def rec(x, parent, gp):
        if isinstance(x, tuple):
            if len(x) >= 2 and x[0] == "call" and isinstance(x[1], str) and (x[1].startswith("str::parse") or "FromStr" in x[1] or x[1] == "Decimal::from_str_exact"):
                if parent and parent[0] == "okopt" and gp and gp[0] == "try":
                    modes.append("none")
                elif parent and parent[0] == "try":
                    modes.append("none")
                elif parent and parent[0] == "call" and parent[1] in ("Result::unwrap", "Result::expect"):
                    modes.append("panic")
                elif parent and parent[0] == "call" and parent[1] in ("Result::unwrap_or", "Result::unwrap_or_default", "Result::unwrap_or_else"):
                    modes.append("default")
                elif parent and parent[0] == "match":
                    modes.append("fallback")
                else:
                    modes.append("other:%s" % (parent[0] if parent else None))
            for y in x:
                rec(y, x, parent)
    rec(t, None, None)
    return modes


def scan_loop_chars(t):
    """characters accepted by the `while let Some(c) = peek() { if <cond> { push(next) } else { break } }` loop"""
    out = {"digit": False, "dot": False, "other": []}
    for s in subterms(t):
        if isinstance(s, tuple) and s and s[0] == "call" and s[1] == "char::is_ascii_digit":
            out["digit"] = True
        e = M(("call", "<&char as cmp::PartialEq>::eq", "_", ("char", "?c")), s) or M(("call", "<char as cmp::PartialEq>::eq", "_", ("char", "?c")), s) \
            or M(("op", "eq", "char", "_", ("char", "?c")), s) or M(("op", "eq", "char", ("char", "?c"), "_"), s)
        if e:
            if e["?c"] == ".":
                out["dot"] = True
            else:
                out["other"].append(e["?c"])
        if isinstance(s, tuple) and s and s[0] == "call" and isinstance(s[1], str) and s[1].startswith("char::is_") and s[1] != "char::is_ascii_digit":
            out["other"].append(s[1])
    return out


class _Unknown(Exception):
    pass


def scan_loop_table(t):
    """Transition table of the literal scan loop, by abstract interpretation of one iteration of its body over a finite
    partition of the character domain (the characters the body mentions, their neighbours, representatives of the rest,
    end of input) and the values of the boolean flags declared before the loop.  Returns None if the loop uses a
    construct outside the small language interpreted here (the syntactic rules then decide), otherwise
    {"init": flags, "table": {(flags, ch): (outcome, pushed, consumed, flags')}} over the reachable flag states."""
    items = list(t[1:]) if isinstance(t, tuple) and t and t[0] == "seq" else [t]
    loops = [(i, x) for i, x in enumerate(items) if isinstance(x, tuple) and x and x[0] == "loop"]
    if len(loops) != 1:
        return None
    li, lp = loops[0]
    flags0 = {}
    for x in items[:li]:
        if isinstance(x, tuple) and len(x) == 3 and x[0] == "let" and isinstance(x[1], str) and x[1].startswith("m") and isinstance(x[2], tuple) and x[2][0] == "lit" and len(x[2]) == 3 and x[2][2] == "bool":
            flags0[x[1]] = x[2][1] == "true"
    body = lp[1]
    # representatives
    reps = set("059.eE-+_ a,x/:") | {"\u0663", "\u00b2", "\uff11"}
    for s_ in subterms(body):
        if isinstance(s_, tuple) and len(s_) == 2 and s_[0] == "char" and isinstance(s_[1], str) and len(s_[1]) == 1:
            c = ord(s_[1])
            reps |= {chr(c), chr(max(c - 1, 0)), chr(min(c + 1, 0x10ffff))}
        if isinstance(s_, tuple) and len(s_) == 5 and s_[0] == "prange" and s_[4] == "char":
            for c in (int(s_[1]), int(s_[2])):
                reps |= {chr(c), chr(max(c - 1, 0)), chr(min(c + 1, 0xd7ff))}
    reps = sorted(reps) + [None]

    def one(ch, flags):
        st = {"env": {}, "flags": dict(flags), "pushed": [], "consumed": 0}

        def val(a):
            if isinstance(a, tuple) and len(a) == 2 and a[0] == "char":
                return a[1]
            if isinstance(a, tuple) and len(a) == 2 and a[0] == "var" and a[1] in st["env"]:
                v = st["env"][a[1]]
                return v[1] if isinstance(v, tuple) else v
            raise _Unknown("value %s" % T.show(a)[:60])

        def pmatch(p, c):
            """character pattern against character c"""
            if p == "_":
                return True
            if isinstance(p, tuple):
                if p[0] == "bind" and len(p) == 2:
                    st["env"][p[1]] = c
                    return True
                if p[0] == "char":
                    return p[1] == c
                if p[0] == "prange" and p[4] == "char":
                    lo, hi = int(p[1]), int(p[2])
                    return lo <= ord(c) <= hi if p[3] == "Included" else lo <= ord(c) < hi
                if p[0] == "por":
                    return any(pmatch(q, c) for q in p[1:])
            raise _Unknown("pattern %s" % T.show(p)[:60])

        def omatch(p, c, consumed):
            """Option<char> pattern against the peeked / consumed character (None at end of input)"""
            if p == "_":
                return True
            if isinstance(p, tuple) and p[0] == "pvar" and p[1] == "Option::None":
                return c is None
            if isinstance(p, tuple) and p[0] == "pvar" and p[1] == "Option::Some" and len(p) == 3:
                if c is None:
                    return False
                if consumed and isinstance(p[2], tuple) and p[2][0] == "bind":
                    st["env"][p[2][1]] = ("consumed", c)
                    return True
                return pmatch(p[2], c)
            raise _Unknown("option pattern %s" % T.show(p)[:60])

        def cond(c):
            if not isinstance(c, tuple) or not c:
                raise _Unknown("condition")
            h = c[0]
            if h == "lit" and len(c) == 3 and c[2] == "bool":
                return c[1] == "true"
            if h == "var" and c[1] in st["flags"]:
                return st["flags"][c[1]]
            if h == "var" and isinstance(st["env"].get(c[1]), bool):
                return st["env"][c[1]]
            if h == "un" and c[1] == "not":
                return not cond(c[-1])
            if h == "op" and len(c) == 5 and c[1] == "and":
                return cond(c[3]) and cond(c[4])
            if h == "op" and len(c) == 5 and c[1] == "or":
                return cond(c[3]) or cond(c[4])
            if h == "op" and len(c) == 5 and c[1] in ("eq", "ne") and c[2] == "char":
                r = val(c[3]) == val(c[4])
                return r if c[1] == "eq" else not r
            if h == "op" and len(c) == 5 and c[1] in ("eq", "ne") and c[2] == "bool":
                r = cond(c[3]) == cond(c[4])
                return r if c[1] == "eq" else not r
            if h == "call" and isinstance(c[1], str) and len(c) == 4 and re.match(r"^<&?char as cmp::PartialEq(<&?char>)?>::(eq|ne)$", c[1]):
                r = val(c[2]) == val(c[3])
                return r if c[1].endswith("eq") else not r
            if h == "call" and c[1] == "char::is_ascii_digit" and len(c) == 3:
                return val(c[2]) in "0123456789"
            if h == "iflet" and len(c) == 3:
                if unify(PEEK, c[2]) is not None:
                    return omatch(c[1], ch, False)
                if unify(NEXT, c[2]) is not None:
                    st["consumed"] += 1
                    if st["consumed"] > 1:
                        raise _Unknown("two characters consumed in one iteration")
                    return omatch(c[1], ch, True)
            raise _Unknown("condition %s" % T.show(c)[:80])

        def ex(x):
            if not isinstance(x, tuple) or not x:
                raise _Unknown("statement")
            h = x[0]
            if h == "seq":
                for y in x[1:]:
                    r = ex(y)
                    if r != "next":
                        return r
                return "next"
            if h == "unit":
                return "next"
            if h == "break":
                return "break"
            if h == "continue":
                return "continue"
            if h == "None" or (h == "return" and len(x) == 2 and x[1] == ("None",)):
                return "none"
            if h == "if" and len(x) == 4:
                return ex(x[2]) if cond(x[1]) else ex(x[3])
            if h == "match" and len(x) > 2:
                opt = unify(PEEK, x[1]) is not None
                c = ch if opt else val(x[1])
                for arm in x[2:]:
                    if (omatch(arm[0], c, False) if opt else pmatch(arm[0], c)) and (len(arm) == 2 or cond(arm[1])):
                        return ex(arm[-1])
                raise _Unknown("no arm")
            if h == "set" and len(x) == 3 and isinstance(x[1], tuple) and x[1][0] == "var" and x[1][1] in st["flags"]:
                st["flags"][x[1][1]] = cond(x[2])
                return "next"
            if h == "let" and len(x) == 3 and isinstance(x[1], str):
                if isinstance(x[2], tuple) and x[2] and x[2][0] == "try" and unify(PEEK, x[2][1]) is not None:
                    if ch is None:
                        return "none"
                    st["env"][x[1]] = ch
                    return "next"
                st["env"][x[1]] = cond(x[2])
                return "next"
            if h == "call" and x[1] == "String::push" and len(x) == 4:
                a = x[3]
                if unify(NEXT, a) is not None or (isinstance(a, tuple) and a[0] == "try" and unify(NEXT, a[1]) is not None):
                    st["consumed"] += 1
                    if ch is None:
                        return "none" if a[0] == "try" else "next"
                    st["pushed"].append(ch)
                    return "next"
                if isinstance(a, tuple) and a[0] == "var" and a[1] in st["env"]:
                    v = st["env"][a[1]]
                    st["pushed"].append(v[1] if isinstance(v, tuple) else "unconsumed:%s" % v)
                    return "next"
                raise _Unknown("push of %s" % T.show(a)[:60])
            if unify(NEXT, x) is not None:
                st["consumed"] += 1
                return "next"
            raise _Unknown("statement %s" % T.show(x)[:80])
        out = ex(body)
        # `buf.push(c); it.next();` with c the peeked character: exactly one character is consumed in the iteration, so the
        # character pushed *is* the consumed one
        pushed = [ch if (isinstance(p_, str) and p_ == "unconsumed:%s" % ch and st["consumed"] == 1) else p_ for p_ in st["pushed"]]
        return out, tuple(pushed), st["consumed"], tuple(sorted(st["flags"].items()))
    table = {}
    init = tuple(sorted(flags0.items()))
    todo, seen = [init], {init}
    try:
        while todo:
            fl = todo.pop()
            for ch in reps:
                r = one(ch, dict(fl))
                table[(fl, ch)] = r
                if r[0] in ("next", "continue") and r[3] not in seen:
                    seen.add(r[3])
                    todo.append(r[3])
            if len(seen) > 16:
                return None
    except (_Unknown, KeyError, IndexError, ValueError, TypeError):
        return None
    return {"init": init, "table": table, "states": sorted(seen), "reps": reps}


def table_verdict(tb, want_dot, second_point_ends):
    """literal grammar read off the transition table: (ok, description)"""
    problems = []
    acc = lambda r, ch: r[0] in ("next", "continue") and r[1] == (ch,) and r[2] == 1
    stop = lambda r: r[0] == "break" and r[1] == () and r[2] == 0
    for (fl, ch), r in sorted(tb["table"].items(), key=lambda kv: (kv[0][0], kv[0][1] or "")):
        if ch is None:
            if not stop(r):
                problems.append("end of input in state %s: %s" % (dict(fl), r[0]))
        elif ch in "0123456789":
            if not (acc(r, ch) and r[3] == fl):
                problems.append("digit %r in state %s: %s pushed=%s consumed=%d" % (ch, dict(fl), r[0], list(r[1]), r[2]))
        elif ch == ".":
            if fl == tb["init"] and acc(r, ch) != want_dot:
                problems.append("'.' %s at the start of the literal" % ("accepted" if acc(r, ch) else "not accepted"))
            if not (acc(r, ch) or stop(r)):
                problems.append("'.' in state %s: %s pushed=%s consumed=%d" % (dict(fl), r[0], list(r[1]), r[2]))
        else:
            if not stop(r):
                problems.append("character %r in state %s: %s pushed=%s consumed=%d (the literal must end there)" % (ch, dict(fl), r[0], list(r[1]), r[2]))
    sp = None
    if want_dot:
        r = tb["table"].get((tb["init"], "."))
        if r is not None and acc(r, "."):
            after = r[3]
            r2 = tb["table"].get((after, "."))
            sp = r2 is not None and stop(r2) and after != tb["init"] and all(tb["table"][(after, d)][3] == after for d in "059")
    return (not problems), "; ".join(problems[:4]), sp


def _vars(t):
    out = set()
    for s in subterms(t):
        if isinstance(s, tuple) and len(s) == 2 and s[0] == "var" and isinstance(s[1], str):
            out.add(s[1])
    return out


def scan_loop_discipline(t):
    """In the scan loop: every `expr.next()` is the argument of a push into the buffer, every push's argument is
    `expr.next()`, and the conditions guarding a push mention only the peeked character (and boolean flags set
    from character tests)."""
    from .justify import walk_ctx
    loops = [s for s in subterms(t) if isinstance(s, tuple) and s and s[0] == "loop"]
    if not loops:
        return False, "no scan loop"
    problems = []
    bufs = set()
    for lp in loops:
        def v(node, anc):
            if unify(NEXT, node) is not None:
                chain = [p for (p, i) in anc]
                # expected: (call String::push (var buf) (try NEXT)) or (call String::push (var buf) NEXT)
                par = chain[-1] if chain else None
                gp = chain[-2] if len(chain) > 1 else None
                push = None
                if par is not None and par[0] == "try" and gp is not None and gp[0] == "call" and gp[1] == "String::push":
                    push = gp
                elif par is not None and par[0] == "call" and par[1] == "String::push":
                    push = par
                if push is None and par is not None and par[0] == "iflet" and gp is not None and gp[0] == "if" and len(gp) == 4 and gp[3] == ("unit",):
                    # if let Some(c) = expr.next() { buf.push(c) }   (after a successful peek the next character exists)
                    e_ = M(("pvar", "Option::Some", ("bind", "?c")), par[1])
                    if e_ is not None and isinstance(gp[2], tuple) and len(gp[2]) == 4 and gp[2][:2] == ("call", "String::push") and gp[2][3] == ("var", e_["?c"]):
                        push = gp[2]
                if push is None:
                    problems.append("a character is consumed without being pushed: %s" % T.show(par)[:80])
                    return
                bufs.add(push[2])
                # guards between the loop and the push
                for (p, i) in anc:
                    if p[0] == "if" and len(p) == 4:
                        c = p[1]
                        for s2 in subterms(c):
                            if isinstance(s2, tuple) and len(s2) > 1 and s2[0] == "call" and isinstance(s2[1], str):
                                if s2[1] not in ("char::is_ascii_digit", "<&char as cmp::PartialEq>::eq", "<char as cmp::PartialEq>::eq", "Chars.peek", "Chars.next"):
                                    problems.append("push guarded by a non-character condition: %s" % s2[1])
        walk_ctx(lp, v)
        # pushes whose argument is not a consumed character
        for s2 in subterms(lp):
            if isinstance(s2, tuple) and len(s2) == 4 and s2[0] == "call" and s2[1] == "String::push":
                a = s2[3]
                bound_next = False
                if isinstance(a, tuple) and a[0] == "var":
                    for s3 in subterms(lp):
                        if isinstance(s3, tuple) and len(s3) == 4 and s3[0] == "if" and isinstance(s3[1], tuple) and s3[1][0] == "iflet" and unify(NEXT, s3[1][2]) is not None \
                                and M(("pvar", "Option::Some", ("bind", a[1])), s3[1][1]) is not None:
                            bound_next = True
                if not (unify(NEXT, a) is not None or (isinstance(a, tuple) and a[0] == "try" and unify(NEXT, a[1]) is not None) or bound_next):
                    problems.append("push of something other than the consumed character: %s" % T.show(a)[:60])
    return (not problems), "; ".join(problems[:3])


def payload_discipline(t, ctors):
    """Every produced token payload is a function of converter(buffer) only."""
    problems = []
    n = 0
    for s in subterms(t):
        e = M(("Some", ("ctor", "?c", "?v")), s)
        if e and e["?c"] in ctors:
            n += 1
            v = e["?v"]
            conv = converter_calls(v)
            if not conv:
                problems.append("payload is not produced by the converter: %s" % T.show(v)[:80])
                continue
            bufs = set()
            for c in conv:
                bufs |= _vars(c)
            extra = _vars(v) - bufs
            if extra:
                problems.append("payload depends on %s besides the scanned text" % sorted(extra))
    if n == 0:
        problems.append("no token construction found")
    return (not problems), "; ".join(problems[:3])


def check_literals(run, m, tag):
    ev = m.ev
    lm = m.lex
    w = "%s::tokenizer (%s)" % (ev, lm.f.file if lm.f else "?")
    # digit literal
    r = lm.run("7)")
    ok_scan = r.get("kind") == "scan"
    run.ob(ok_scan, "literal-scan|%s|digit" % ev, "%s a digit starts a number literal" % tag, w, str(r.get("kind")))
    if not ok_scan:
        return
    t = r["term"]
    conv = converter_calls(t)
    names = {c[1] for c in conv}
    run.ob(bool(names) and names <= CONVERTERS[ev], "literal-converter|%s|digit" % ev, "%s the scanned text is handed to the standard converter of the evaluator's type" % tag, w,
           "converters %s, expected a subset of %s" % (sorted(names), sorted(CONVERTERS[ev])), sample={"evaluator": ev, "literal": "DIGITS[.DIGITS]", "converter": sorted(names)})
    # converter argument is the scanned String itself
    argok = all(isinstance(c[2], tuple) and c[2][0] == "var" for c in conv)
    run.ob(argok, "literal-text|%s|digit" % ev, "%s the converter receives exactly the scanned characters" % tag, w, "; ".join(T.show(c)[:80] for c in conv))
    modes = failure_modes(t)
    want_ok = all(mo in ("none", "fallback") for mo in modes) and modes
    run.ob(want_ok, "literal-failure|%s|digit" % ev, "%s a failed conversion yields None (-> Err) or the documented fallback, never a panic or a default value" % tag, w, "failure handling: %s" % modes,
           sample={"evaluator": ev, "conversion_failure": modes})
    chars = scan_loop_chars(t)
    allowed_other = []
    want_dot = ev != "eval_i64"
    tbl = scan_loop_table(t)
    m.scan_table = tbl
    if tbl is not None:
        # decided on the transition table of the loop (one iteration interpreted over a finite partition of the characters)
        okt, whyt, _sp = table_verdict(tbl, want_dot, ev == "eval_number")
        run.ob(okt, "literal-chars|%s|digit" % ev, "%s a literal continues over ASCII digits%s only (no sign, no exponent letter)" % (tag, " and '.'" if want_dot else ""), w,
               whyt or str(chars), sample={"evaluator": ev, "scan_loop_states": len(tbl["states"]), "character_classes": len(tbl["reps"]), "table_cells": len(tbl["table"])})
    else:
        run.ob(chars["digit"] and chars["dot"] == want_dot and sorted(set(chars["other"])) == sorted(allowed_other), "literal-chars|%s|digit" % ev,
               "%s a literal continues over ASCII digits%s only (no sign, no exponent letter)" % (tag, " and '.'" if want_dot else ""), w, str(chars))
    # every consumed character is pushed, unconditionally within the character-class test; nothing else feeds the buffer
    okloop, why = scan_loop_discipline(t)
    if not okloop and tbl is not None and okt:
        # the table already says it: an accepted character is consumed once and pushed, every other cell consumes and pushes nothing;
        # what remains is that there is one buffer
        lps = [s_ for s_ in subterms(t) if isinstance(s_, tuple) and s_ and s_[0] == "loop"]
        targets = {s_[2] for lp_ in lps for s_ in subterms(lp_) if isinstance(s_, tuple) and len(s_) == 4 and s_[0] == "call" and s_[1] == "String::push"}
        if len(lps) == 1 and len(targets) == 1:
            okloop, why = True, ""
    run.ob(okloop, "literal-loop|%s|digit" % ev, "%s the scanner pushes every character it consumes (and nothing else) into the literal text" % tag, w, why)
    okpay, why = payload_discipline(t, {"Token::Num"})
    run.ob(okpay, "literal-payload|%s|digit" % ev, "%s the token's value is the converter's result on the scanned text and nothing else" % tag, w, why)
    # the payload is not post-processed: Token::Num(<converter result>) possibly wrapped in the evaluator's value constructor
    for s in subterms(t):
        e = M(("Some", ("ctor", "Token::Num", "?v")), s)
        if e:
            v = e["?v"]
            inner = [x for x in subterms(v) if isinstance(x, tuple) and x and x[0] in ("op", "un", "cast")]
            run.ob(not inner, "literal-post|%s|digit" % ev, "%s nothing is applied to the converted value before it becomes the token" % tag, w, T.show(v)[:160])
    # .DIGITS
    if ev != "eval_i64":
        r = lm.run(".5)")
        ok = r.get("kind") == "scan"
        pref = ok and any(s in (("call", "<str as std::string::ToString>::to_string", ("str", "0")), ("str", "0"), ("str", "0."), ("call", "<str as std::string::ToString>::to_string", ("str", "0."))) for s in subterms(r["term"]))
        run.ob(ok and pref, "literal-scan|%s|dot" % ev, "%s `.DIGITS` is scanned as one literal, converted as `0.DIGITS`" % tag, w, str(r.get("kind")))
        r0 = lm.run(".)")
        run.ob(r0.get("kind") == "none", "literal-scan|%s|lone-dot" % ev, "%s a lone `.` is rejected" % tag, w, str(r0.get("kind")))
        if ok:
            modes = failure_modes(r["term"])
            run.ob(bool(modes) and all(mo in ("none", "fallback") for mo in modes), "literal-failure|%s|dot" % ev, "%s failed conversion of `.DIGITS` yields None" % tag, w, str(modes))
    # superscripts
    r = lm.run("²)")
    if r.get("kind") == "scan":
        modes = failure_modes(r["term"])
        conv = {c[1] for c in converter_calls(r["term"])}
        indirect = any(c.startswith("Lex.") for c in conv)
        run.ob((bool(modes) and all(mo in ("none", "fallback") for mo in modes)) or (indirect and not modes), "literal-failure|%s|superscript" % ev, "%s failed conversion of a superscript run yields None" % tag, w, "%s via %s" % (modes, sorted(conv)))
    # helper converters (eval_number::integer_or_float)
    for c in {c[1] for c in conv if c[1].startswith("Lex.")} if False else set():
        pass
    f = m.tb.fn("::tokenizer::integer_or_float")
    if f is not None:
        t = m.tb.deep_term(f)
        FLOAT = ("|", ("Some", ("ctor", "Number::Float", ("try", ("okopt", ("call", "str::parse::<f64>", ("param", "?x")))))),
                 ("match", ("call", "str::parse::<f64>", ("param", "?x")), (("pvar", "Result::Ok", ("bind", "?f")), ("Some", ("ctor", "Number::Float", ("var", "?f")))), (("pvar", "Result::Err", "_"), ("None",))))
        e = M(("match", ("call", "str::parse::<i64>", ("param", "?x")), (("pvar", "Result::Ok", ("bind", "?i")), ("Some", ("ctor", "Number::Integer", ("var", "?i")))),
               (("pvar", "Result::Err", "_"), FLOAT)), t)
        run.ob(e is not None, "literal-helper|%s" % ev, "%s integer literal: Integer when it fits i64, otherwise the Float of the same text (None if that fails too)" % tag, f.key, T.show(t)[:300])


def imaginary_suffix(run, m, pid):
    """eval_complex: a literal directly followed by `i` is the imaginary literal (0, x) and the `i` is consumed;
    otherwise the literal is real (x, 0).  Shared by C08 (i*i = -1 needs the imaginary literal) and C19 (literal clause,
    and the printed form a+bi reads back)."""
    from .props.common import where
    w = where(m, "::tokenizer::Tokenizer")
    for probe, nm in (("2)", "digit"), (".5)", "dot")):
        r = m.lex.run(probe)
        ok = False
        if r.get("kind") == "scan":
            t = r["term"]
            # if let Some('i') = peek { next; Num(Complex::new(0.0, parse)) } else { Num(Complex::new(parse, 0.0)) }
            hits = []
            for s in subterms(t):
                e = M(("if", ("iflet", ("pvar", "Option::Some", ("char", "i")), "_"), "?a", "?b"), s)
                if e:
                    ia = [x for x in subterms(e["?a"]) if M(("call", "Complex::new", ("lit", "0.0", "f64"), ("try", ("okopt", ("call", "str::parse::<f64>", "_")))), x) is not None]
                    rb = [x for x in subterms(e["?b"]) if M(("call", "Complex::new", ("try", ("okopt", ("call", "str::parse::<f64>", "_"))), ("lit", "0.0", "f64")), x) is not None]
                    consumes = any(M(("try", ("call", "Chars.next", "_")), x) is not None or M(("call", "Chars.next", "_"), x) is not None for x in subterms(e["?a"]))
                    hits.append(bool(ia) and bool(rb) and consumes)
            ok = bool(hits) and all(hits)
        run.ob(ok, "lex|imaginary|%s" % nm, pid + " a literal directly followed by `i` is imaginary (0, x) and consumes the `i`; otherwise real (x, 0)", w, str(r.get("kind")),
               sample={"literal": nm, "forms": ["<num>i -> Complex::new(0.0, x)", "<num> -> Complex::new(x, 0.0)"]})
