"""Literal scanners (DESIGN §5 C19 / C06-c / C07-c / C08): analysis of the tokenizer arms that
scan digit runs, `.DIGITS` and superscript runs."""
from . import thir as T
from .pat import M, parse as P, unify, subterms
from .lexer import NEXT, PEEK, EXPR

CONVERTERS = {"eval_f64": {"str::parse::<f64>"}, "eval_i64": {"str::parse::<i64>"}, "eval_decimal": {"<Decimal as std::str::FromStr>::from_str", "Decimal::from_str_exact"},
              "eval_complex": {"str::parse::<f64>"}, "eval_number": {"str::parse::<f64>", "str::parse::<i64>", "Lex.integer_or_float"}}


def converter_calls(t):
    out = []
    for s in subterms(t):
        if isinstance(s, tuple) and len(s) >= 2 and s[0] == "call" and isinstance(s[1], str) and (s[1].startswith("str::parse") or "FromStr" in s[1] or s[1].startswith("Lex.") or s[1] == "Decimal::from_str_exact" or "from_str_radix" in s[1]):
            out.append(s)
    return out


def failure_modes(t):
    """how the result of each converter call is consumed: 'none' (-> tokenizer None -> Err), 'panic', 'default', 'fallback'"""
    modes = []

    def rec(x, parent, gp):
        if isinstance(x, tuple):
            if len(x) >= 2 and x[0] == "call" and isinstance(x[1], str) and (x[1].startswith("str::parse") or "FromStr" in x[1] or x[1] == "Decimal::from_str_exact"):
                if parent and parent[0] == "okopt" and gp and gp[0] == "try":
                    modes.append("none")
                elif parent and parent[0] == "try":
                    modes.append("none")
                elif parent and parent[0] == "call" and parent[1] in ("Result::unwrap", "Result::expect"):
                    modes.append("panic")
                elif parent and parent[0] == "call" and parent[1] in ("Result::unwrap_or", "Result::unwrap_or_default", "Result::unwrap_or_else"):
                    modes.append("default")
                elif parent and parent[0] == "match":
                    modes.append("fallback")
                else:
                    modes.append("other:%s" % (parent[0] if parent else None))
            for y in x:
                rec(y, x, parent)
    rec(t, None, None)
    return modes


def scan_loop_chars(t):
    """characters accepted by the `while let Some(c) = peek() { if <cond> { push(next) } else { break } }` loop"""
    out = {"digit": False, "dot": False, "other": []}
    for s in subterms(t):
        if isinstance(s, tuple) and s and s[0] == "call" and s[1] == "char::is_ascii_digit":
            out["digit"] = True
        e = M(("call", "<&char as cmp::PartialEq>::eq", "_", ("char", "?c")), s) or M(("call", "<char as cmp::PartialEq>::eq", "_", ("char", "?c")), s) \
            or M(("op", "eq", "char", "_", ("char", "?c")), s) or M(("op", "eq", "char", ("char", "?c"), "_"), s)
        if e:
            if e["?c"] == ".":
                out["dot"] = True
            else:
                out["other"].append(e["?c"])
        if isinstance(s, tuple) and s and s[0] == "call" and isinstance(s[1], str) and s[1].startswith("char::is_") and s[1] != "char::is_ascii_digit":
            out["other"].append(s[1])
    return out


def _vars(t):
    out = set()
    for s in subterms(t):
        if isinstance(s, tuple) and len(s) == 2 and s[0] == "var" and isinstance(s[1], str):
            out.add(s[1])
    return out


def scan_loop_discipline(t):
    """In the scan loop: every `expr.next()` is the argument of a push into the buffer, every push's argument is
    `expr.next()`, and the conditions guarding a push mention only the peeked character (and boolean flags set
    from character tests)."""
    from .justify import walk_ctx
    loops = [s for s in subterms(t) if isinstance(s, tuple) and s and s[0] == "loop"]
    if not loops:
        return False, "no scan loop"
    problems = []
    bufs = set()
    for lp in loops:
        def v(node, anc):
            if unify(NEXT, node) is not None:
                chain = [p for (p, i) in anc]
                # expected: (call String::push (var buf) (try NEXT)) or (call String::push (var buf) NEXT)
                par = chain[-1] if chain else None
                gp = chain[-2] if len(chain) > 1 else None
                push = None
                if par is not None and par[0] == "try" and gp is not None and gp[0] == "call" and gp[1] == "String::push":
                    push = gp
                elif par is not None and par[0] == "call" and par[1] == "String::push":
                    push = par
                if push is None and par is not None and par[0] == "iflet" and gp is not None and gp[0] == "if" and len(gp) == 4 and gp[3] == ("unit",):
                    # if let Some(c) = expr.next() { buf.push(c) }   (after a successful peek the next character exists)
                    e_ = M(("pvar", "Option::Some", ("bind", "?c")), par[1])
                    if e_ is not None and isinstance(gp[2], tuple) and len(gp[2]) == 4 and gp[2][:2] == ("call", "String::push") and gp[2][3] == ("var", e_["?c"]):
                        push = gp[2]
                if push is None:
                    problems.append("a character is consumed without being pushed: %s" % T.show(par)[:80])
                    return
                bufs.add(push[2])
                # guards between the loop and the push
                for (p, i) in anc:
                    if p[0] == "if" and len(p) == 4:
                        c = p[1]
                        for s2 in subterms(c):
                            if isinstance(s2, tuple) and len(s2) > 1 and s2[0] == "call" and isinstance(s2[1], str):
                                if s2[1] not in ("char::is_ascii_digit", "<&char as cmp::PartialEq>::eq", "<char as cmp::PartialEq>::eq", "Chars.peek", "Chars.next"):
                                    problems.append("push guarded by a non-character condition: %s" % s2[1])
        walk_ctx(lp, v)
        # pushes whose argument is not a consumed character
        for s2 in subterms(lp):
            if isinstance(s2, tuple) and len(s2) == 4 and s2[0] == "call" and s2[1] == "String::push":
                a = s2[3]
                bound_next = False
                if isinstance(a, tuple) and a[0] == "var":
                    for s3 in subterms(lp):
                        if isinstance(s3, tuple) and len(s3) == 4 and s3[0] == "if" and isinstance(s3[1], tuple) and s3[1][0] == "iflet" and unify(NEXT, s3[1][2]) is not None \
                                and M(("pvar", "Option::Some", ("bind", a[1])), s3[1][1]) is not None:
                            bound_next = True
                if not (unify(NEXT, a) is not None or (isinstance(a, tuple) and a[0] == "try" and unify(NEXT, a[1]) is not None) or bound_next):
                    problems.append("push of something other than the consumed character: %s" % T.show(a)[:60])
    return (not problems), "; ".join(problems[:3])


def payload_discipline(t, ctors):
    """Every produced token payload is a function of converter(buffer) only."""
    problems = []
    n = 0
    for s in subterms(t):
        e = M(("Some", ("ctor", "?c", "?v")), s)
        if e and e["?c"] in ctors:
            n += 1
            v = e["?v"]
            conv = converter_calls(v)
            if not conv:
                problems.append("payload is not produced by the converter: %s" % T.show(v)[:80])
                continue
            bufs = set()
            for c in conv:
                bufs |= _vars(c)
            extra = _vars(v) - bufs
            if extra:
                problems.append("payload depends on %s besides the scanned text" % sorted(extra))
    if n == 0:
        problems.append("no token construction found")
    return (not problems), "; ".join(problems[:3])


def check_literals(run, m, tag):
    ev = m.ev
    lm = m.lex
    w = "%s::tokenizer (%s)" % (ev, lm.f.file if lm.f else "?")
    # digit literal
    r = lm.run("7)")
    ok_scan = r.get("kind") == "scan"
    run.ob(ok_scan, "literal-scan|%s|digit" % ev, "%s a digit starts a number literal" % tag, w, str(r.get("kind")))
    if not ok_scan:
        return
    t = r["term"]
    conv = converter_calls(t)
    names = {c[1] for c in conv}
    run.ob(bool(names) and names <= CONVERTERS[ev], "literal-converter|%s|digit" % ev, "%s the scanned text is handed to the standard converter of the evaluator's type" % tag, w,
           "converters %s, expected a subset of %s" % (sorted(names), sorted(CONVERTERS[ev])), sample={"evaluator": ev, "literal": "DIGITS[.DIGITS]", "converter": sorted(names)})
    # converter argument is the scanned String itself
    argok = all(isinstance(c[2], tuple) and c[2][0] == "var" for c in conv)
    run.ob(argok, "literal-text|%s|digit" % ev, "%s the converter receives exactly the scanned characters" % tag, w, "; ".join(T.show(c)[:80] for c in conv))
    modes = failure_modes(t)
    want_ok = all(mo in ("none", "fallback") for mo in modes) and modes
    run.ob(want_ok, "literal-failure|%s|digit" % ev, "%s a failed conversion yields None (-> Err) or the documented fallback, never a panic or a default value" % tag, w, "failure handling: %s" % modes,
           sample={"evaluator": ev, "conversion_failure": modes})
    chars = scan_loop_chars(t)
    allowed_other = []
    want_dot = ev != "eval_i64"
    run.ob(chars["digit"] and chars["dot"] == want_dot and sorted(set(chars["other"])) == sorted(allowed_other), "literal-chars|%s|digit" % ev,
           "%s a literal continues over ASCII digits%s only (no sign, no exponent letter)" % (tag, " and '.'" if want_dot else ""), w, str(chars))
    # every consumed character is pushed, unconditionally within the character-class test; nothing else feeds the buffer
    okloop, why = scan_loop_discipline(t)
    run.ob(okloop, "literal-loop|%s|digit" % ev, "%s the scanner pushes every character it consumes (and nothing else) into the literal text" % tag, w, why)
    okpay, why = payload_discipline(t, {"Token::Num"})
    run.ob(okpay, "literal-payload|%s|digit" % ev, "%s the token's value is the converter's result on the scanned text and nothing else" % tag, w, why)
    # the payload is not post-processed: Token::Num(<converter result>) possibly wrapped in the evaluator's value constructor
    for s in subterms(t):
        e = M(("Some", ("ctor", "Token::Num", "?v")), s)
        if e:
            v = e["?v"]
            inner = [x for x in subterms(v) if isinstance(x, tuple) and x and x[0] in ("op", "un", "cast")]
            run.ob(not inner, "literal-post|%s|digit" % ev, "%s nothing is applied to the converted value before it becomes the token" % tag, w, T.show(v)[:160])
    # .DIGITS
    if ev != "eval_i64":
        r = lm.run(".5)")
        ok = r.get("kind") == "scan"
        pref = ok and any(s in (("call", "<str as std::string::ToString>::to_string", ("str", "0")), ("str", "0"), ("str", "0."), ("call", "<str as std::string::ToString>::to_string", ("str", "0."))) for s in subterms(r["term"]))
        run.ob(ok and pref, "literal-scan|%s|dot" % ev, "%s `.DIGITS` is scanned as one literal, converted as `0.DIGITS`" % tag, w, str(r.get("kind")))
        r0 = lm.run(".)")
        run.ob(r0.get("kind") == "none", "literal-scan|%s|lone-dot" % ev, "%s a lone `.` is rejected" % tag, w, str(r0.get("kind")))
        if ok:
            modes = failure_modes(r["term"])
            run.ob(bool(modes) and all(mo in ("none", "fallback") for mo in modes), "literal-failure|%s|dot" % ev, "%s failed conversion of `.DIGITS` yields None" % tag, w, str(modes))
    # superscripts
    r = lm.run("²)")
    if r.get("kind") == "scan":
        modes = failure_modes(r["term"])
        conv = {c[1] for c in converter_calls(r["term"])}
        indirect = any(c.startswith("Lex.") for c in conv)
        run.ob((bool(modes) and all(mo in ("none", "fallback") for mo in modes)) or (indirect and not modes), "literal-failure|%s|superscript" % ev, "%s failed conversion of a superscript run yields None" % tag, w, "%s via %s" % (modes, sorted(conv)))
    # helper converters (eval_number::integer_or_float)
    for c in {c[1] for c in conv if c[1].startswith("Lex.")} if False else set():
        pass
    f = m.tb.fn("::tokenizer::integer_or_float")
    if f is not None:
        t = m.tb.deep_term(f)
        FLOAT = ("|", ("Some", ("ctor", "Number::Float", ("try", ("okopt", ("call", "str::parse::<f64>", ("param", "?x")))))),
                 ("match", ("call", "str::parse::<f64>", ("param", "?x")), (("pvar", "Result::Ok", ("bind", "?f")), ("Some", ("ctor", "Number::Float", ("var", "?f")))), (("pvar", "Result::Err", "_"), ("None",))))
        e = M(("match", ("call", "str::parse::<i64>", ("param", "?x")), (("pvar", "Result::Ok", ("bind", "?i")), ("Some", ("ctor", "Number::Integer", ("var", "?i")))),
               (("pvar", "Result::Err", "_"), FLOAT)), t)
        run.ob(e is not None, "literal-helper|%s" % ev, "%s integer literal: Integer when it fits i64, otherwise the Float of the same text (None if that fails too)" % tag, f.key, T.show(t)[:300])
