"""./check selftest — tests the checker, not the repository: applies every corpus entry to a scratch copy
of /repo (outside /repo and /verif), runs the named checks, compares, deletes the copy.
 break  : the named check must fail and print the named key
 silent : every check must stay silent (behaviour-preserving rewrite)
Results: evidence/selftest.json.  No property verdict depends on this at run time."""
import json, os, shutil, subprocess, sys, tempfile, time
from concurrent.futures import ThreadPoolExecutor

VERIF = os.path.dirname(os.path.dirname(os.path.abspath(__file__)))
sys.path.insert(0, os.path.join(VERIF, "tools"))
ALL = ["C%02d" % i for i in range(1, 21)]


def job(entry):
    import trymut
    d = trymut.make_copy()
    out = {"name": entry["name"], "kind": entry["kind"], "results": {}}
    try:
        try:
            for ed in entry["edits"]:
                if "patch" in ed:
                    pr = subprocess.run(["patch", "-p1", "--no-backup-if-mismatch", "-s", "-i", ed["patch"]], cwd=d, stdout=subprocess.PIPE, stderr=subprocess.STDOUT, text=True)
                    if pr.returncode != 0:
                        raise SystemExit("patch does not apply: " + pr.stdout[-200:])
                else:
                    trymut.apply_edit(d, ed)
        except SystemExit as e:
            out["error"] = str(e)
            return out
        checks = entry["expect"] if entry["kind"] == "break" else {p: None for p in ALL}
        env = dict(os.environ, SC_REPO=d, SC_NO_STACK="1")
        for pid, want in checks.items():
            p = subprocess.run([os.path.join(VERIF, "check"), pid, "--tier", "quick"], env=env, stdout=subprocess.PIPE, stderr=subprocess.STDOUT, text=True)
            keys = [l.strip().split(" ", 1)[1] for l in p.stdout.splitlines() if l.strip().startswith("violation ")]
            broken = [l.strip() for l in p.stdout.splitlines() if "CHECK-BROKEN" in l]
            if entry["kind"] == "break":
                ok = p.returncode != 0 and any(want in k for k in keys)
            else:
                ok = p.returncode == 0
            out["results"][pid] = {"ok": ok, "rc": p.returncode, "keys": keys[:6], "broken": broken[:2]}
        return out
    finally:
        shutil.rmtree(d, ignore_errors=True)


def main(tier, names=None):
    corpus = json.load(open(os.path.join(VERIF, "mutants", "corpus.json")))
    # behaviour-preserving refactorings written by independent sub-agents (refactors/<id>/patch.diff) on which every
    # check is known to be silent: they must stay silent
    exp = os.path.join(VERIF, "refactors", "EXPECT_SILENT.txt")
    if os.path.exists(exp) and not os.environ.get("SC_SELFTEST_CORPUS_ONLY"):      # (the refactorings take hours with a cold fact cache)
        for rid in open(exp).read().split():
            pp = os.path.join(VERIF, "refactors", rid, "patch.diff")
            if os.path.exists(pp):
                corpus.append({"name": "refactor-" + rid, "kind": "silent", "edits": [{"patch": pp}], "expect": {}})
    if names:
        corpus = [c for c in corpus if c["name"] in names]
    if os.environ.get("SC_SELFTEST_KIND"):
        corpus = [c for c in corpus if c["kind"] == os.environ["SC_SELFTEST_KIND"]]
    t0 = time.time()
    with ThreadPoolExecutor(max_workers=int(os.environ.get("SC_SELFTEST_JOBS", "5"))) as ex:
        res = list(ex.map(job, corpus))
    bad = 0
    for r in res:
        if r.get("error"):
            print("ERROR  %-28s %s" % (r["name"], r["error"][:120]))
            bad += 1
            continue
        for pid, x in r["results"].items():
            if not x["ok"]:
                bad += 1
                print("%-7s %-28s %s rc=%d keys=%s %s" % ("MISSED" if r["kind"] == "break" else "ALARM", r["name"], pid, x["rc"], x["keys"][:3], x["broken"][:1]))
    summary = {"entries": len(res), "breaks": len([r for r in res if r["kind"] == "break"]), "silent": len([r for r in res if r["kind"] == "silent"]), "failures": bad, "wall_s": round(time.time() - t0, 1), "results": res}
    with open(os.path.join(VERIF, "evidence", "selftest.json"), "w") as fh:
        json.dump(summary, fh, indent=1, ensure_ascii=False)
    print("selftest: %d entries, %d failures, %.0fs" % (len(res), bad, time.time() - t0))
    # drop the scratch fact bases this run created
    from sc import extract
    extract.prune_cache(80)
    return 1 if bad else 0
