"""Chain composition  surface syntax -> token -> node constructor -> eval arm  (DESIGN §5 C10).
The result is a term over A0..An (the operands / arguments in the order they are written)."""
from . import thir as T
from .pat import M, subterms
from .model import ctor_name


def subst_sym(t, mapping):
    if isinstance(t, tuple):
        if t in mapping:
            return mapping[t]
        return tuple(subst_sym(x, mapping) for x in t)
    return t


def leaf_ctor(m):
    """Constructor of literal leaves (Node::Number / Node::Num) if its eval arm is the identity."""
    num = m.prim().get("Num")
    if num is None or num[1][1][0] != "tailcall":
        return None
    e = M(("ctor", "?leaf", ("var", "?b")), num[1][1][1][1])
    if not e:
        return None
    arm = m.tb.eval_arms().get(e["?leaf"].split("::")[1])
    if arm and arm["term"] == ("Ok", ("C0",)):
        return e["?leaf"]
    return None


def reduce_leaves(t, leaf):
    """(ev (ctor <leaf> X)) -> X   (evaluating a literal leaf yields its payload)"""
    if isinstance(t, tuple):
        if leaf and len(t) == 2 and t[0] == "ev" and isinstance(t[1], tuple) and len(t[1]) == 3 and t[1][0] == "ctor" and t[1][1] == leaf:
            return reduce_leaves(t[1][2], leaf)
        return tuple(reduce_leaves(x, leaf) for x in t)
    return t


def arm_for_node(m, node, operand_map):
    """node = (ctor Node::X a b ..) with arguments drawn from operand_map keys -> eval arm term over A-symbols"""
    if not (isinstance(node, tuple) and node and node[0] == "ctor" and node[1].startswith("Node::")):
        return None, "not a Node constructor: %s" % T.show(node)[:100]
    ctor = node[1].split("::")[1]
    arm = m.tb.eval_arms().get(ctor)
    if arm is None:
        return None, "no eval arm for %s" % ctor
    if arm["guard"]:
        return None, "guarded eval arm for %s" % ctor
    mapping = {}
    for i, a in enumerate(node[2:]):
        mapping[("C%d" % i,)] = operand_map.get(a, a)
    t = subst_sym(arm["term"], mapping)
    return (ctor, reduce_leaves(t, leaf_ctor(m))), None


def binary_chain(m, surf):
    tv = m.tokvar(surf)
    arm = m.bin().get(tv) if tv else None
    if arm is None:
        return None, "no operator arm for %r" % surf
    pat, (evs_, tail) = arm
    if tail[0] != "ok":
        return None, "operator arm does not end in Ok(node)"
    f = m.tb.fn("::parser::Parser::convert_token_to_node")
    lp = ("param", T.param_ids(f)[1][1])
    return arm_for_node(m, tail[1], {lp: ("A0",), ("R1",): ("A1",)})


def postfix_chain(m, surf):
    tv = m.tokvar(surf)
    arm = m.bin().get(tv) if tv else None
    if arm is None:
        return None, "no postfix arm for %r" % surf
    pat, (evs_, tail) = arm
    f = m.tb.fn("::parser::Parser::convert_token_to_node")
    lp = ("param", T.param_ids(f)[1][1])
    if tail[0] == "ok":
        node = tail[1]
    elif tail[0] == "tailcall" and tail[1][0] == "impl":
        node = tail[1][1]
    else:
        return None, "unrecognised postfix arm"
    return arm_for_node(m, node, {lp: ("A0",)})


def prefix_chain(m, surf):
    tv = m.tokvar(surf)
    arm = m.prim().get(tv) if tv else None
    if arm is None:
        return None, "no prefix arm for %r" % surf
    pat, (evs_, tail) = arm
    if tail[0] != "ok":
        return None, "prefix arm does not end in Ok"
    if tail[1] == ("R1",):
        return ("identity", ("A0",)), None
    return arm_for_node(m, tail[1], {("R1",): ("A0",)})


def function_chain(m, name):
    arms, after = m.prim_functions()
    tv = m.tokvar(name)
    if not (isinstance(tv, tuple) and tv[0] == "ExplicitFunction"):
        return None, "%r is not tokenised as a function" % name
    arm = arms.get(tv[1])
    if arm is None:
        return None, "no parser arm for %s" % tv[1]
    evs_, tail = arm
    node = None
    if tail[0] == "val":
        node = tail[1]
        omap = {}
        for s in subterms(node):
            e = M(("call", "<Vec<Node> as ops::Index>::index", ("R1",), ("lit", "?k", "usize")), s)
            if e:
                omap[s] = ("A%s" % e["?k"],)
        return arm_for_node(m, node, omap)
    if tail[0] == "if" and tail[3][1][0] == "val":
        node = tail[3][1][1]       # variadic: Node::X(args)
        return arm_for_node(m, node, {("R1",): ("ARGS",)})
    return None, "unrecognised function arm"


def constant_chain(m, surf):
    tv = m.tokvar(surf)
    arm = m.prim().get(tv) if tv else None
    if arm is None:
        return None, "no arm for constant %r" % surf
    pat, (evs_, tail) = arm
    if tail[0] != "ok":
        return None, "constant arm does not end in Ok"
    leaf = leaf_ctor(m)
    e = M(("ctor", leaf, "?v"), tail[1]) if leaf else None
    if not e:
        return None, "constant is not a literal leaf: %s" % T.show(tail[1])[:100]
    return ("const", e["?v"]), None


# ---------------------------------------------------------------------------
# partial evaluation of variant dispatch (eval_number decision trees)

def pat_bind(pat, val, env):
    """Try to match a constructor value against a pattern. Returns True/False/None (unknown)."""
    if pat == "_":
        return True
    if isinstance(pat, tuple):
        if pat[0] == "bind":
            env[pat[1]] = val
            return True
        if pat[0] == "pvar":
            if isinstance(val, tuple) and val and val[0] == "ctor":
                if val[1] != pat[1]:
                    return False
                if len(val) - 2 != len(pat) - 2:
                    return None
                for p, v in zip(pat[2:], val[2:]):
                    r = pat_bind(p, v, env)
                    if r is not True:
                        return r
                return True
            if isinstance(val, tuple) and val and val[0] in ("Some", "None") and pat[1] in ("Option::Some", "Option::None"):
                if ("Option::" + val[0]) != pat[1]:
                    return False
                for p, v in zip(pat[2:], val[1:]):
                    r = pat_bind(p, v, env)
                    if r is not True:
                        return r
                return True
            return None
        if pat[0] == "pleaf" and isinstance(val, tuple) and val and val[0] == "tuple":
            if len(pat) != len(val):
                return None
            for p, v in zip(pat[1:], val[1:]):
                r = pat_bind(p, v, env)
                if r is not True:
                    return r
            return True
        if pat[0] == "por":
            for q in pat[1:]:
                e2 = {}
                r = pat_bind(q, val, e2)
                if r is True:
                    env.update(e2)
                    return True
                if r is None:
                    return None
            return False
    return None


def peval(t, subst, env=None):
    """Reduce `match` on known constructor values.  subst: dict term -> value term (e.g. (ev (A0)) -> (ctor Number::Integer (a)))"""
    env = env or {}
    if isinstance(t, tuple):
        if t in subst:
            return subst[t]
        if len(t) == 2 and t[0] == "var" and t[1] in env:
            return env[t[1]]
        if t and t[0] == "match":
            s = peval(t[1], subst, env)
            for arm in t[2:]:
                e2 = dict(env)
                r = pat_bind(arm[0], s, e2)
                if r is True and len(arm) == 2:
                    return peval(arm[1], subst, e2)
                if r is None or (r is True and len(arm) != 2):
                    break
            else:
                return ("nomatch", s)
            return ("match", s) + tuple(a[:-1] + (peval(a[-1], subst, env),) for a in t[2:])
        return tuple(peval(x, subst, env) for x in t)
    return t
