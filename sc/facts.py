"""Fact base wrapper: function index, call graph over resolved callees,
reachability from the public entry points, per-function CFG helpers."""
import re
from collections import defaultdict

EVALUATORS = ["eval_f64", "eval_i64", "eval_decimal", "eval_complex", "eval_number"]


def strip_generics(path):
    """Parser::<'a>::parse -> Parser::parse (for readable keys)."""
    return re.sub(r"::<[^<>]*(?:<[^<>]*>[^<>]*)*>", "", path)


class Fn:
    def __init__(self, j):
        self.j = j
        self.path = j["path"]
        self.key = strip_generics(self.path)
        self.kind = j["kind"]
        self.file = j["file"]
        self.mir = j.get("mir")
        self.thir = j.get("thir")
        self.derived = j.get("derived", False)
        self.parent = j.get("parent")

    @property
    def evaluator(self):
        p = self.key
        m = re.match(r"<?(eval_[a-z0-9]+)::", p)
        if m:
            return m.group(1)
        m = re.search(r"\b(eval_(?:f64|i64|decimal|complex|number))::", p)
        return m.group(1) if m else None

    @property
    def short(self):
        return self.key.split("::")[-1] if not self.key.endswith("}") else "::".join(self.key.split("::")[-2:])

    def __repr__(self):
        return "Fn(%s)" % self.key


def callee_of(term):
    """Resolved callee descriptor of a MIR call terminator, or None for indirect calls."""
    f = term["func"]
    return f.get("fn")


def callee_name(fn):
    return fn["inst"] or fn["def"]


class Facts:
    def __init__(self, doc):
        self.doc = doc
        self.fns = [Fn(j) for j in doc["fns"]]
        self.by_path = {}
        for f in self.fns:
            self.by_path[f.path] = f
        self.by_key = {f.key: f for f in self.fns}
        self.features = sorted(doc.get("features", []))
        self._cg = None

    def fn(self, key):
        return self.by_key.get(key) or self.by_path.get(key)

    def evaluators_present(self):
        return [e for e in EVALUATORS if ("%s::%s" % (e, e)) in self.by_key]

    def entry_points(self):
        return [self.by_key["%s::%s" % (e, e)] for e in self.evaluators_present()]

    # ---- call graph -------------------------------------------------------
    def callgraph(self):
        """edges[path] = set of local fn paths possibly called (direct calls,
        fn items / closures whose value is taken, closures constructed)."""
        if self._cg is not None:
            return self._cg
        edges = defaultdict(set)
        ext = defaultdict(list)  # path -> [(callee descriptor, block idx)]
        indirect = defaultdict(list)
        for f in self.fns:
            if not f.mir:
                continue
            for bi, b in enumerate(f.mir["blocks"]):
                for s in b["stmts"]:
                    if s["k"] != "assign":
                        continue
                    rv = s["rv"]
                    for op in _rv_operands(rv):
                        fnj = op.get("fn") if op.get("k") == "const" else None
                        if fnj and fnj.get("inst_local") and fnj["inst"] in self.by_path:
                            edges[f.path].add(fnj["inst"])
                    if rv["k"] == "aggregate" and rv["ak"] == "closure":
                        d = rv["of"]["def"]
                        if d in self.by_path:
                            edges[f.path].add(d)
                    if rv["k"] == "cast" and "ClosureFnPointer" in rv["ck"]:
                        # closure type printed as {closure@file:line:col: line:col}; resolve by parent
                        for g in self.fns:
                            if g.kind == "Closure" and g.parent == f.path:
                                edges[f.path].add(g.path)
                t = b["term"]
                if t["k"] in ("call", "tailcall"):
                    fnj = callee_of(t)
                    if fnj is None:
                        indirect[f.path].append(bi)
                    else:
                        if fnj.get("inst_local") and fnj["inst"] in self.by_path:
                            edges[f.path].add(fnj["inst"])
                        elif fnj["def"] in self.by_path and fnj.get("inst") is None:
                            edges[f.path].add(fnj["def"])
                        else:
                            ext[f.path].append((fnj, bi))
                    for a in t["args"]:
                        fa = a.get("fn") if a.get("k") == "const" else None
                        if fa and fa.get("inst_local") and fa["inst"] in self.by_path:
                            edges[f.path].add(fa["inst"])
        # derived impls reachable through trait dispatch inside std (Clone of Box<Node> -> Node::clone,
        # Debug of Box<Node>, PartialEq): add edges by type mention
        for f in self.fns:
            for (fnj, bi) in ext.get(f.path, []):
                full = fnj.get("inst_full") or ""
                d = fnj["def"]
                tr = None
                if d.startswith("std::clone::Clone::clone"):
                    tr = "std::clone::Clone"
                elif d.startswith("std::cmp::PartialEq::"):
                    tr = "std::cmp::PartialEq"
                elif "fmt::rt::Argument" in d and "new_debug" in d:
                    tr = "std::fmt::Debug"
                elif d.startswith("std::fmt::Debug::fmt"):
                    tr = "std::fmt::Debug"
                if tr:
                    for g in self.fns:
                        if g.j.get("impl_trait") == tr and g.j.get("impl_self") and g.j["impl_self"] in full + " ".join(fnj.get("gargs", [])):
                            edges[f.path].add(g.path)
        self._cg = (edges, ext, indirect)
        return self._cg

    def reach(self, entries=None):
        edges, _, _ = self.callgraph()
        if entries is None:
            entries = [f.path for f in self.entry_points()]
        seen = set()
        stack = list(entries)
        while stack:
            p = stack.pop()
            if p in seen:
                continue
            seen.add(p)
            stack.extend(edges.get(p, ()))
        return seen

    def scope(self):
        """Functions whose behaviour can matter for a call of the public API: everything reachable in the resolved
        call graph from the entry points, plus every trait-impl method and public function of the crate (std calls
        those through dispatch the call graph cannot see: From in `?`, PartialOrd::partial_cmp behind `<`, Debug in
        `format!`, user-callable conversions).  In this crate that is every function."""
        s = set(self.reach())
        for f in self.fns:
            if f.j.get("impl_trait") or f.j.get("public") or f.kind == "Closure":
                s.add(f.path)
        # closures of functions in scope
        changed = True
        edges, _, _ = self.callgraph()
        while changed:
            changed = False
            for p in list(s):
                for q in edges.get(p, ()):
                    if q not in s:
                        s.add(q)
                        changed = True
        return s

    def reach_of_evaluator(self, ev):
        k = "%s::%s" % (ev, ev)
        if k not in self.by_key:
            return set()
        return self.reach([self.by_key[k].path])


def _rv_operands(rv):
    out = []
    for k in ("a", "b"):
        if k in rv and isinstance(rv[k], dict):
            out.append(rv[k])
    for o in rv.get("ops", []) or []:
        out.append(o)
    return out


# ---- CFG helpers -----------------------------------------------------------

def successors(term, include_unwind=False):
    k = term["k"]
    out = []
    if k == "goto":
        out = [term["target"]]
    elif k == "switch":
        out = [t[1] for t in term["targets"]] + [term["otherwise"]]
    elif k in ("drop", "assert"):
        out = [term["target"]]
    elif k == "call":
        if term.get("target") is not None:
            out = [term["target"]]
    if include_unwind and term.get("unwind") is not None:
        out.append(term["unwind"])
    return out


class CFG:
    def __init__(self, mir):
        self.mir = mir
        self.blocks = mir["blocks"]
        n = len(self.blocks)
        self.succ = [successors(b["term"]) for b in self.blocks]
        self.pred = [[] for _ in range(n)]
        for i, ss in enumerate(self.succ):
            for s in ss:
                self.pred[s].append(i)
        self._dom = None

    def reachable(self):
        seen = set()
        st = [0]
        while st:
            b = st.pop()
            if b in seen:
                continue
            seen.add(b)
            st.extend(self.succ[b])
        return seen

    def dominators(self):
        """dom[b] = set of blocks dominating b (iterative; functions are small)."""
        if self._dom is not None:
            return self._dom
        reach = self.reachable()
        allb = set(reach)
        dom = {b: set(allb) for b in reach}
        dom[0] = {0}
        changed = True
        order = sorted(reach)
        while changed:
            changed = False
            for b in order:
                if b == 0:
                    continue
                ps = [p for p in self.pred[b] if p in reach]
                if not ps:
                    continue
                new = set.intersection(*(dom[p] for p in ps)) | {b}
                if new != dom[b]:
                    dom[b] = new
                    changed = True
        self._dom = dom
        return dom

    def back_edges(self):
        dom = self.dominators()
        out = []
        for b in dom:
            for s in self.succ[b]:
                if s in dom.get(b, ()):
                    out.append((b, s))
        return out

    def natural_loops(self):
        """list of (header, body set, [latch blocks])"""
        loops = {}
        for (latch, header) in self.back_edges():
            body = {header}
            st = [latch]
            while st:
                x = st.pop()
                if x in body:
                    continue
                body.add(x)
                st.extend(self.pred[x])
            if header in loops:
                loops[header][0].update(body)
                loops[header][1].append(latch)
            else:
                loops[header] = [body, [latch]]
        return [(h, b, l) for h, (b, l) in sorted(loops.items())]

    def sccs_nontrivial(self):
        """Irreducible-safe: strongly connected components with a cycle."""
        n = len(self.blocks)
        index = {}
        low = {}
        onst = set()
        st = []
        out = []
        counter = [0]
        import sys
        sys.setrecursionlimit(10000)

        def sc(v):
            index[v] = low[v] = counter[0]
            counter[0] += 1
            st.append(v)
            onst.add(v)
            for w in self.succ[v]:
                if w not in index:
                    sc(w)
                    low[v] = min(low[v], low[w])
                elif w in onst:
                    low[v] = min(low[v], index[w])
            if low[v] == index[v]:
                comp = []
                while True:
                    w = st.pop()
                    onst.discard(w)
                    comp.append(w)
                    if w == v:
                        break
                if len(comp) > 1 or v in self.succ[v]:
                    out.append(set(comp))

        for v in sorted(self.reachable()):
            if v not in index:
                sc(v)
        return out
