"""Premises shared by the table rules: the term translator treats `.clone()`, `==` on tokens, and drops as the
compiler-derived operations.  That is only sound while the corresponding impls *are* derived."""
import re

ALLOWED_MANUAL = {
    ("std::convert::From", "Number"), ("std::convert::From", "ParseError"), ("std::fmt::Display", "ParseError"),
    ("std::iter::Iterator", "Tokenizer"), ("std::error::Error", "ParseError"),
}
MUST_BE_DERIVED = {"std::clone::Clone", "std::cmp::PartialEq", "std::cmp::PartialOrd", "std::cmp::Eq", "std::cmp::Ord", "std::fmt::Debug", "std::hash::Hash", "std::marker::Copy", "std::default::Default"}


def short_self(t):
    return re.sub(r"<.*$", "", t.split("::")[-1] if "<" not in t else re.sub(r"<.*$", "", t).split("::")[-1])


def trait_impls(run, F, tag):
    n = 0
    for i in F.doc["impls"]:
        tr = i["trait"]
        if tr is None:
            continue
        st = short_self(i["self_ty"])
        n += 1
        if i["derived"]:
            continue
        if (tr, st) in ALLOWED_MANUAL:
            continue
        if tr == "std::cmp::PartialOrd":
            from .tables import catinfo, level_order
            cat = catinfo(F)
            if cat is not None and i["self_ty"] == cat["path"] and level_order(F, cat) is not None:
                continue      # the category order written as a comparison of integer levels: read by category_order()
        if tr in MUST_BE_DERIVED:
            run.ob(False, "manual-impl|%s|%s" % (tr.split("::")[-1], i["self_ty"]), "%s premise: Clone / PartialEq / PartialOrd / Debug of the crate's types are the compiler-derived structural impls (the rules read `.clone()` and `==` as such)" % tag,
                   "%s:%s" % (i["file"], i["span"][0]), "hand-written `impl %s for %s`" % (tr, i["self_ty"]))
        elif tr in ("std::ops::Drop",):
            run.ob(False, "manual-impl|Drop|%s" % i["self_ty"], "%s premise: no user code runs when values are dropped" % tag, "%s:%s" % (i["file"], i["span"][0]), "hand-written `impl Drop for %s`" % i["self_ty"])
        else:
            run.ob(False, "manual-impl|%s|%s" % (tr.split("::")[-1], i["self_ty"]), "%s premise: no trait impl outside the known set (From for Number/ParseError, Display for ParseError, Iterator for Tokenizer) — an operator/Deref/Index impl on a crate type would change what the extracted terms mean" % tag,
                   "%s:%s" % (i["file"], i["span"][0]), "hand-written `impl %s for %s` (UNRECOGNISED)" % (tr, i["self_ty"]))
    run.ob(True, "trait-impl-census", "%s premise" % tag, "crate impls", sample={"trait_impls_inspected": n, "manual_outside_known_set": 0})



def dep_features(run, tag):
    """The dependency feature set is part of the trusted base of every rule that relies on the behaviour of
    rust_decimal / num_complex (e.g. `maths-nopanic` makes ln(0) return 0, `legacy-ops` swaps the arithmetic back end)."""
    import os, tomllib
    from . import extract
    try:
        ct = tomllib.load(open(os.path.join(extract.repo_dir(), "Cargo.toml"), "rb"))
    except Exception as e:
        run.fail_closed("cannot read Cargo.toml", repr(e))
        return
    deps = ct.get("dependencies", {})
    rd, nc = deps.get("rust_decimal", {}), deps.get("num-complex", {})
    ok = isinstance(rd, dict) and sorted(rd.get("features", [])) == ["maths"] and rd.get("default-features") is False and isinstance(nc, dict) and not nc.get("features") and nc.get("default-features", True) is True
    ok = ok and set(deps) == {"rust_decimal", "num-complex"} and not ct.get("patch") and not ct.get("replace")
    run.ob(ok, "dependency-features", "%s premise: the dependencies are built with exactly the documented features (rust_decimal: maths, no defaults; num-complex: defaults) and are not patched" % tag, "Cargo.toml [dependencies]", str(deps)[:300],
           sample={"rust_decimal": rd if isinstance(rd, dict) else str(rd), "num-complex": nc if isinstance(nc, dict) else str(nc)})


def entry_chains(run, models, tag):
    for ev, m in models.items():
        ok, why = m.entry_chain()
        run.ob(ok, "entry-chain|%s" % ev, "%s premise: the public function is strip whitespace -> Parser::new? -> parse()? -> eval(ast)? -> Ok(value), the value returned unchanged (no fast path, no cache, no post-processing)" % tag, "%s::%s" % (ev, ev), why)


def _where(m, fn):
    f = m.tb.fn(fn)
    return "%s (%s)" % (f.key, f.file) if f else "%s::%s" % (m.ev, fn)


def token_stream(run, models, tag):
    """The parser sees exactly the tokenizer's tokens, one per get_next_token, starting at the first token of the given
    text; the tokenizer reads exactly the characters of the given text.  Every table-based argument (what a token
    means, which token follows which) stands on this."""
    from . import thir as T
    from .pat import M
    for ev, m in models.items():
        F = m.F
        # get_next_token advances by exactly one token: current_token := tokenizer.next() (Err on None)
        f = m.tb.fn("::parser::Parser::get_next_token")
        t = m.tb.parser_term(f)
        NT = ("call", "<Tokenizer<'_> as iter::Iterator>::next", ("field", ("param", "self"), "tokenizer"))
        GET = ("|", ("match", NT, (("pvar", "Option::Some", ("bind", "?b")), ("var", "?b")), (("pvar", "Option::None"), ("return", ("Err",)))), ("try", ("lift", NT)))
        SETP = ("set", ("field", ("param", "self"), "previous_token"), ("Some", ("field", ("param", "self"), "current_token")))
        SETC = ("set", ("field", ("param", "self"), "current_token"), ("var", "?t"))
        SWAP = ("set", ("field", ("param", "self"), "previous_token"), ("Some", ("call", "std::mem::replace", ("field", ("param", "self"), "current_token"), ("var", "?t"))))
        SWAP0 = ("call", "std::mem::replace", ("field", ("param", "self"), "current_token"), ("var", "?t"))
        okg = any(M(p_, t) is not None for p_ in (("seq", ("let", "?t", GET), SETP, SETC, ("Ok", ("tuple",))), ("seq", ("let", "?t", GET), SETC, ("Ok", ("tuple",))),
                                                  ("seq", ("let", "?t", GET), SWAP, ("Ok", ("tuple",))), ("seq", ("let", "?t", GET), SWAP0, ("Ok", ("tuple",)))))
        run.ob(okg, "advance|%s" % ev, "%s premise (token stream): " % tag + "get_next_token replaces the current token by the next token of the input, exactly one per call", "%s (%s)" % (f.key, f.file), "" if okg else "UNRECOGNISED: " + T.show(t)[:300])
        f = m.tb.fn("::parser::Parser::new")
        t = m.tb.parser_term(f)
        # single-use immutable bindings are substituted (a binding for the placeholder default, for the first token, ...)
        items = list(t[1:]) if isinstance(t, tuple) and t and t[0] == "seq" else [t]
        env_ = {}
        kept = []
        for it in items:
            if isinstance(it, tuple) and len(it) == 3 and it[0] == "let" and isinstance(it[1], str) and it[1].startswith("v"):
                env_[it[1]] = it[2]
            else:
                kept.append(it)
        from .tables import subst_vars
        flat = tuple(kept)
        for _ in range(len(env_) + 1):
            flat = subst_vars(flat, env_)
        flat = flat[0] if len(flat) == 1 else ("seq",) + flat
        NEXT1 = ("try", ("lift", ("call", "<Tokenizer<'_> as iter::Iterator>::next", ("var", "?lx"))))
        e = M(("seq", ("let", "?lx", ("call", "Lex.Tokenizer::new", ("param", "?ex"))),
               ("Ok", ("struct", "Parser::Parser", ("tokenizer", ("var", "?lx")), ("current_token", NEXT1), ("previous_token", "_"), ("?f4", "_")))), flat)
        run.ob(e is not None, "parser-new|%s" % ev, "%s premise (token stream): " % tag + "Parser::new tokenizes the given text and starts at its first token", "%s (%s)" % (f.key, f.file), "" if e is not None else "UNRECOGNISED: " + T.show(t)[:300])
        ft = None
        for k_, g_ in F.by_key.items():
            if g_.evaluator == ev and k_.endswith("tokenizer::Tokenizer::new"):
                ft = g_
        tt = m.tb.fn_term(ft) if ft else None
        okt = tt is not None and M(("struct", "Tokenizer::Tokenizer", ("expr", ("call", "<std::str::Chars<'_> as iter::Iterator>::peekable", ("call", "str::chars", ("param", "?x"))))), tt) is not None
        run.ob(okt, "tokenizer-new|%s" % ev, "%s premise (token stream): " % tag + "the tokenizer reads the characters of the given text, all of them, in order", ft.key if ft else ev, "" if okt else "UNRECOGNISED: " + (T.show(tt)[:200] if tt else "Tokenizer::new not found"))


def profile_const(run, F, tag):
    """The fact base is extracted with debug assertions off, and the normaliser keeps only the live branch of an
    `if <literal>` (what `cfg!(debug_assertions)` / `debug_assert!` expand to).  That is the behaviour of *every* build
    profile only if neither branch of such an `if` does anything but compute and possibly panic (panics are C01's):
    no assignment, no `&mut` borrow (a `self.expr.next()` inside `debug_assert_eq!` consumes a character in dev builds only)."""
    from . import thir as T
    n_fn = n_if = 0
    for f in F.fns:
        if not f.thir or f.derived:
            continue
        n_fn += 1
        for x in T.find_all(f.thir.get("body"), lambda y: y.get("k") == "if" and isinstance(y.get("c"), dict) and y["c"].get("k") == "lit" and y["c"].get("lk") == "bool"):
            n_if += 1
            # (`peek()` borrows the iterator mutably but only fills the look-ahead slot: what `next()` returns afterwards is unchanged)
            benign = set()
            for c_ in T.find_all([x.get("t"), x.get("e")], lambda y: y.get("k") == "call" and isinstance(y.get("fn"), dict) and str(y["fn"].get("def", "")).endswith("Peekable::<I>::peek")):
                for a_ in c_.get("args", []):
                    while isinstance(a_, dict) and a_.get("k") in ("scope", "use", "expr") and isinstance(a_.get("e"), dict):
                        a_ = a_["e"]
                    if isinstance(a_, dict) and a_.get("k") == "borrow":
                        benign.add(id(a_))
            eff = T.find_all([x.get("t"), x.get("e")], lambda y: y.get("k") in ("assign", "assignop") or (y.get("k") in ("borrow", "rawborrow") and "Mut" in str(y.get("bk", y.get("m", ""))) and id(y) not in benign))
            run.ob(not eff, "profile-const|%s" % f.key, "%s premise: code under a compile-time constant condition (cfg!/debug_assert!) has no side effect, so dev and release builds behave alike" % tag,
                   "%s (%s)" % (f.key, f.file), "`if %s { .. }` contains %d assignment(s)/mutable borrow(s): behaviour differs between build profiles" % (x["c"].get("v"), len(eff)), distinct="profile-const")
    # conditional compilation that is not about the five evaluator features (debug_assertions, target, ...): the fact base shows one
    # configuration of it only
    from .props.c17 import cfg_census, cfg_names
    from . import extract
    n_cfg = 0
    for rel, line, pred in cfg_census(extract.repo_dir()):
        if pred == "cfg(test)":
            continue
        n_cfg += 1
        names = cfg_names(pred)
        run.ob(names <= {"feature"}, "profile-cfg|%s|%s" % (rel, pred[:60]), "%s premise: conditional compilation depends on the evaluator features only; the analysed configuration then stands for every profile and target" % tag,
               "%s:%d" % (rel, line), pred[:200], distinct="profile-cfg")
    run.ob(True, "profile-const-census", "%s premise" % tag, "crate bodies", sample={"bodies_scanned": n_fn, "constant_conditions": n_if, "with_side_effects": 0, "cfg_predicates_inspected": n_cfg})
