"""C06 — eval_i64 returns the exact integer result or Err, never a wrapped value (DESIGN §5 C06).
 a  typed-operation census over eval_i64::ast in both overflow configurations (no wrap-capable operation)
 b  arm table = checked-operation table (chain surface -> token -> node -> arm)
 c  literal conversion (shared with C19)"""
import re
from collections import Counter
from .. import extract, spec, thir as T
from ..facts import Facts
from ..model import Model
from ..pat import M, subterms
from ..justify import walk_ctx
from .common import setup, report_issues, where, check_chain

LEVEL = "proof"
PID = "C06"
ARITH = {"Add", "Sub", "Mul", "Div", "Rem", "Shl", "Shr", "AddWithOverflow", "SubWithOverflow", "MulWithOverflow", "AddUnchecked", "SubUnchecked", "MulUnchecked", "ShlUnchecked", "ShrUnchecked"}
VALUE_INT = re.compile(r"^(i8|i16|i32|i64|i128|isize|u8|u16|u32|u64|u128)$")
FORBIDDEN_CALL = re.compile(r"num::<impl [iu](8|16|32|64|128|size)>::(pow|abs|wrapping_(?!rem\b)\w+|saturating_\w+|unchecked_\w+|overflowing_\w+|rem_euclid|div_euclid|isqrt|ilog\w*|next_power_of_two|strict_\w+|unsigned_abs|abs_diff)$")
INT_OPS_TRAIT = re.compile(r"^std::ops::(Add|Sub|Mul|Div|Rem|Neg|Shl|Shr)(Assign)?::\w+$")
REAL_ARMS = {"Sqrt", "Root", "Ln", "Lb", "Log", "Exp"}
OPS = [("bin", s) for s in ("+", "-", "*", "/", "%", "^", "&", "|", "<<", ">>")] + [("pre", "-")] + [("fn", s) for s in ("abs(", "sgn(", "sign(", "signum(", "mod(", "pow(")]


def typed_census(run, F, cfgname):
    cen = Counter()
    fns = [f for f in F.fns if f.evaluator == "eval_i64" and "::ast::" in f.key and f.mir and not f.derived]
    for f in fns:
        has_i64_to_usize = False
        for b in f.mir["blocks"]:
            if b["cleanup"]:
                continue
            for s in b["stmts"]:
                if s["k"] != "assign":
                    continue
                rv = s["rv"]
                if rv["k"] == "binop":
                    cen[(rv["op"], rv["aty"])] += 1
                    if rv["op"] in ARITH and (VALUE_INT.match(rv["aty"]) or VALUE_INT.match(rv["bty"]) and rv["op"] not in ("Shl", "Shr", "ShlUnchecked", "ShrUnchecked")):
                        run.ob(False, "raw-op|%s|%s|%s" % (f.short, rv["op"], rv["aty"]), "C06-a no wrap- or panic-capable raw integer operation on expression values",
                               "%s (%s) line %s [%s]" % (f.key, f.file, s["sp"][0], cfgname), "raw %s on %s: wraps silently without overflow checks and panics with them" % (rv["op"], rv["aty"]))
                elif rv["k"] == "unop":
                    cen[(rv["op"], rv["aty"])] += 1
                    if rv["op"] == "Neg" and VALUE_INT.match(rv["aty"]):
                        run.ob(False, "raw-op|%s|Neg|%s" % (f.short, rv["aty"]), "C06-a no raw integer negation", "%s line %s [%s]" % (f.key, s["sp"][0], cfgname), "raw negation of %s" % rv["aty"])
                elif rv["k"] == "cast" and rv["ck"] == "IntToInt":
                    cen[("cast", rv["from"], rv["to"])] += 1
                    if rv["from"] == "i64":
                        run.ob(False, "narrowing-cast|%s|%s" % (f.short, rv["to"]), "C06-a no `as` cast of an expression value to another integer type (use try_from)",
                               "%s (%s) line %s [%s]" % (f.key, f.file, s["sp"][0], cfgname), "i64 as %s truncates / reinterprets" % rv["to"])
                elif rv["k"] == "cast":
                    cen[("cast", rv["ck"], rv["from"], rv["to"])] += 1
            t = b["term"]
            if t["k"] == "call" and t["func"].get("fn"):
                fnj = t["func"]["fn"]
                for nm in {fnj["def"], fnj.get("inst") or fnj["def"]}:
                    if FORBIDDEN_CALL.search(nm):
                        run.ob(False, "wrapping-call|%s|%s" % (f.short, nm.split("::")[-1]), "C06-a no wrapping / saturating / panicking integer method",
                               "%s (%s) line %s [%s]" % (f.key, f.file, t["sp"][0], cfgname), "calls %s" % nm)
                        break
                if INT_OPS_TRAIT.match(fnj["def"]) and re.match(r"^&*(mut )?[iu](8|16|32|64|128|size)$", fnj.get("self_ty") or ""):
                    run.ob(False, "raw-op|%s|%s" % (f.short, fnj["def"].split("::")[2]), "C06-a no integer operator through the ops traits", "%s line %s [%s]" % (f.key, t["sp"][0], cfgname), "%s on %s" % (fnj["def"], fnj["self_ty"]))
    run.ob(True, "typed-census|%s" % cfgname, "C06-a", cfgname, sample={"config": cfgname, "functions": [f.short for f in fns], "typed_operations": len(cen), "raw_value_arithmetic": 0})
    return cen, len(fns)


def main(tier):
    run, F, models = setup(PID, tier, LEVEL)
    run.trusted = ["i64::checked_{add,sub,mul,div,neg,abs,pow,shl,shr} return None exactly when the exact result does not fit (shl/shr: count >= 64)", "i64::wrapping_rem is exact for every non-zero divisor",
                   "u32::try_from(i64) fails exactly outside 0..=4294967295"]
    if F is None or "eval_i64" not in models:
        if F is not None:
            run.fail_closed("eval_i64 not present")
        return run.finish("census + arm table", "./check C06 --tier %s" % tier)
    m = models["eval_i64"]
    from ..canary import i64_canary
    i64_canary(run)
    # a. census, both configurations, must agree
    cen_on, nf = typed_census(run, F, "ovf-on")
    try:
        F2 = Facts(extract.load(overflow=False))
        cen_off, _ = typed_census(run, F2, "ovf-off")
        def arith(c):
            return {k: v for k, v in c.items() if len(k) == 2 and (k[0] in ARITH or k[0] == "Neg") and VALUE_INT.match(k[1])}
        a_on, a_off = arith(cen_on), arith(cen_off)
        diff = {k: (a_on.get(k, 0), a_off.get(k, 0)) for k in set(a_on) | set(a_off) if a_on.get(k, 0) != a_off.get(k, 0)}
        run.ob(not diff, "profile-diff", "C06-a the typed operation census is the same with and without overflow checks (no operation for the checks to guard)", where(m, "::ast::eval"), str(diff)[:300],
               sample={"census_on": len(cen_on), "census_off": len(cen_off)})
    except extract.ExtractError as e:
        run.fail_closed("extraction (overflow off) failed", str(e)[-800:])
    run.floor("functions in eval_i64::ast", nf, 3)
    arms = m.tb.eval_arms()
    from .. import chain
    real_arms = set()
    for nm in ("sqrt(", "root(", "ln(", "lb(", "log(", "exp("):
        r_, _ = chain.function_chain(m, nm)
        if r_:
            real_arms.add(r_[0])
    # float round trips only in the real-valued functions
    for ctor, a in arms.items():
        has = any(isinstance(s, tuple) and s and s[0] == "cast" and ((s[1] == "i64" and s[2] == "f64") or (s[1] == "f64" and s[2] == "i64")) for s in subterms(a["term"]))
        if has:
            run.ob(ctor in real_arms, "float-roundtrip|%s" % ctor, "C06-a conversion through f64 only in the real-valued functions (sqrt, root, ln, lb, log, exp)", "%s arm %s" % (where(m, "::ast::eval"), ctor), "arm %s converts through f64" % ctor)
    # wrapping_rem only under a non-zero-divisor guard
    for g in [f for f in F.fns if f.evaluator == "eval_i64" and "::ast::" in f.key and f.thir and not f.derived and f.kind != "Closure"]:
        t = m.tb.fn_term(g, inline_pure=True, eval_fn=(m.tb.eval_names() if (m.tb.eval_fn() is not None and g.path == m.tb.eval_fn().path) else None))

        def v(node, anc, g=g):
            if node[0] == "call" and node[1] == "i64::wrapping_rem" and len(node) == 4:
                b = node[3]
                ok = False
                for (p, i) in anc:
                    if p[0] == "if" and len(p) == 4:
                        if p[1] == ("op", "eq", "i64", b, ("lit", "0", "i64")) and i == 3:
                            ok = True
                        if p[1] == ("op", "ne", "i64", b, ("lit", "0", "i64")) and i == 2:
                            ok = True
                run.ob(ok, "wrapping-rem-guard|%s" % g.short, "C06-a wrapping_rem is used only where the divisor is known to be non-zero", g.key, T.show(node)[:120])
        walk_ctx(t, v)
    # b. arm table
    for kind, s in OPS:
        check_chain(run, m, kind, s, "C06", "C06-b the arm computes the exact result through a checked operation and maps None to Err")
    # n!
    r_, _ = chain.postfix_chain(m, "!")
    fa = arms.get(r_[0]) if r_ else None
    okf = False
    if fa is not None:
        e = M(("if", ("op", "ge", "i64", ("ev", ("C0",)), ("lit", "0", "i64")), "?pos", "?neg"), fa["term"])
        if e:
            pos = e["?pos"]
            g = M(("if", ("op", "gt", "i64", ("ev", ("C0",)), ("lit", "?k", "i64")), ("Err",), "?loop"), pos)
            loop = g["?loop"] if g else pos
            l = M(("seq", ("let", "?m", ("lit", "1", "i64")), ("for", ("bind", "?i"), ("rangei", ("lit", "?lo", "i64"), ("ev", ("C0",))), ("set", ("var", "?m"), ("try", ("lift", ("call", "i64::checked_mul", ("var", "?m"), ("var", "?i")))))), ("Ok", ("var", "?m"))), loop)
            okf = l is not None and l["?lo"] in ("1", "2")
    run.ob(okf, "meaning|eval_i64|post|!", "C06-b n! (n >= 0) is the checked product 2*3*..*n, Err on overflow", "%s arm Factorial" % where(m, "::ast::eval"), T.show(fa["term"])[:300] if fa else "no arm",
           sample={"evaluator": "eval_i64", "surface": "!", "term": "checked product 2..=n"})
    # no default-on-None in the arithmetic arms
    arith = []
    for kind, s_ in OPS + [("post", "!")]:
        fn_ = {"bin": chain.binary_chain, "pre": chain.prefix_chain, "fn": chain.function_chain, "post": chain.postfix_chain}[kind]
        r_, _ = fn_(m, s_)
        if r_ and r_[0] not in arith and r_[0] != "identity":
            arith.append(r_[0])
    for ctor in arith:
        a = arms.get(ctor)
        if a is None:
            continue
        bad = [s for s in subterms(a["term"]) if isinstance(s, tuple) and len(s) > 1 and s[0] == "call" and isinstance(s[1], str) and s[1] in ("Option::unwrap_or", "Option::unwrap_or_default", "Option::unwrap_or_else", "Result::unwrap_or", "Result::unwrap_or_default")]
        run.ob(not bad, "no-default|%s" % ctor, "C06-b None is mapped to Err, never to a fabricated value", "%s arm %s" % (where(m, "::ast::eval"), ctor), T.show(bad[0])[:120] if bad else "")
    # c. literals
    from ..scanners import check_literals
    check_literals(run, m, "C06-c")
    # the statement is about expressions: their value is that of the standard tree (C04's tables as a premise)
    from .c04 import precedence_tables
    precedence_tables(run, F, {"eval_i64": m}, PID)
    report_issues(run, {"eval_i64": m}, tables={"T_eval", "T_prim", "T_lex"})
    run.floor("obligations", run.obligations, 35)
    return run.finish("typed MIR operation census of eval_i64::ast in both overflow configurations + chain table against the checked-operation reference", "./check C06 --tier %s" % tier)
