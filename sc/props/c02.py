"""C02 — every evaluation terminates within work linear in the input length (DESIGN §5 C02).
Every loop in every function reachable from the entry points is classified
  L1 input-consuming | L2 parser loop (each iteration consumes a token) | L3 constant-bounded | L4 Euclid form
with an extracted bound; every recursion cycle consumes a token (parser) or descends into a strict
sub-term (eval); the budget 4096 + 256*len then follows arithmetically from the extracted constants."""
import re
from collections import defaultdict
from .. import extract, spec, thir as T
from ..facts import Facts, CFG
from ..model import Model
from ..pat import M, parse as P, unify, subterms
from ..justify import walk_ctx
from ..tables import local_names
from .common import setup, report_issues, where

LEVEL = "proof"
PID = "C02"
FINITE_ITERS = ("Chars.", "CharsRef.", "Take.", "TakeRef.")
CONSUME_TOKEN = "P.get_next_token"


def lit_int(t):
    e = M(("lit", "?v", "?t"), t)
    if e and re.match(r"^-?\d+$", str(e["?v"])):
        return int(e["?v"])
    return None


def lit_num(t):
    e = M(("lit", "?v", "?t"), t)
    if e:
        try:
            return float(e["?v"])
        except ValueError:
            return None
    return None


def strip_casts(t):
    while isinstance(t, tuple) and t and t[0] == "cast":
        t = t[3]
    return t


def upper_bound(end, anc, ctxinfo):
    """Upper-bound provenance of a range end. Returns (K, how) or (None, why)."""
    k = lit_int(end)
    if k is not None:
        return k, "literal"
    core = strip_casts(end)
    k = lit_int(core)
    if k is not None:
        return k, "literal"
    # min(_, K) / clamp
    if isinstance(core, tuple) and core and core[0] == "call" and isinstance(core[1], str) and core[1].endswith("cmp::Ord>::min") and len(core) == 4:
        for a in core[2:]:
            k = lit_int(a)
            if k is not None:
                return k, "min(_, %d)" % k
    if isinstance(core, tuple) and core and core[0] == "call" and isinstance(core[1], str) and (core[1].endswith("cmp::Ord>::clamp") or core[1].endswith("::clamp")) and len(core) == 5:
        k = lit_int(core[4])
        if k is not None:
            return k, "clamp(_, _, %d)" % k
    # a match whose value arms are guarded by `v <= K`
    if isinstance(core, tuple) and core and core[0] == "match":
        ks = []
        okm = True
        for arm in core[2:]:
            val = arm[-1]
            if isinstance(val, tuple) and val and val[0] == "return":
                continue
            if len(arm) == 3:
                g = arm[1]
                e = M(("op", "?o", "_", val, ("lit", "?k", "_")), g)
                if e and e["?o"] in ("le", "lt"):
                    ks.append(int(e["?k"]))
                    continue
            # the same, with the guard as a conditional inside the arm:  P => if v <= K { v } else { return Err }
            e = M(("if", ("op", "?o", "_", "?v", ("lit", "?k", "_")), "?v", ("return", "_")), val)
            if e and e["?o"] in ("le", "lt"):
                ks.append(int(e["?k"]))
                continue
            okm = False
        if okm and ks:
            return max(ks), "match guard v <= %d" % max(ks)
    # parameter with literal-only call sites
    e = M(("param", "?p"), core)
    if e and ctxinfo.get("param_literals", {}).get(e["?p"]):
        ks = ctxinfo["param_literals"][e["?p"]]
        return max(ks), "parameter %s: call sites pass literals %s" % (e["?p"], sorted(set(ks)))
    # parameter of a helper: every call site passes a value that has an upper-bound provenance where it is called
    if e and ctxinfo.get("callsite_bound"):
        r = ctxinfo["callsite_bound"](e["?p"])
        if r is not None:
            return r
    # dominating guard on the same value
    for (p, i) in reversed(anc):
        if p[0] == "if" and len(p) == 4:
            c = p[1]
            conds = []

            def flat(c_):
                if isinstance(c_, tuple) and c_ and c_[0] == "op" and c_[1] == "and":
                    flat(c_[3]); flat(c_[4])
                else:
                    conds.append(c_)
            flat(c)
            for cc in (conds if i == 2 else []):
                e = M(("op", "?o", "_", core, ("lit", "?k", "_")), cc)
                if e and e["?o"] in ("le", "lt"):
                    return int(float(e["?k"])), "guard v %s %s on the taken branch" % ("<=" if e["?o"] == "le" else "<", e["?k"])
                e = M(("call", "ops::RangeInclusive::contains", ("rangei", "_", ("lit", "?k", "_")), core), cc)
                if e:
                    return int(e["?k"]), "guard (lo..=%s).contains(v)" % e["?k"]
                e = M(("call", "ops::Range::contains", ("range", "_", ("lit", "?k", "_")), core), cc)
                if e:
                    return int(e["?k"]), "guard (lo..%s).contains(v)" % e["?k"]
            if i == 3 and len(conds) == 1:
                e = M(("op", "?o", "_", core, ("lit", "?k", "_")), conds[0])
                if e and e["?o"] in ("gt", "ge"):
                    return int(float(e["?k"])), "guard: not (v %s %s) on the taken branch" % (">" if e["?o"] == "gt" else ">=", e["?k"])
    return None, "no upper-bound provenance for %s" % T.show(end)[:120]


def classify_loops(run, f, t, ctxinfo, kmax, counts):
    """classify every loop construct in term t of function f"""
    key0 = f.key.replace("parser::Parser::", "")

    def v(node, anc):
        if not node:
            return
        h = node[0]
        if h == "for":
            it = node[2]
            counts["loops"] += 1
            # iteration over a finite collection / the argument list
            if isinstance(it, tuple) and it and it[0] == "call" and isinstance(it[1], str) and (it[1] == "iter" or it[1].endswith("iter::IntoIterator>::into_iter")):
                run.ob(True, "loop|%s|for-collection|%d" % (key0, counts["loops"]), "C02 L1", f.key, distinct="loop|%s|for-collection" % key0, sample={"fn": key0, "loop": "for x in <collection>", "class": "L1 bounded by the collection length"} if counts["loops"] < 4 else None)
                counts["L1"] += 1
                return
            e = M(("range", "?a", "?b"), it) or M(("rangei", "?a", "?b"), it)
            if e is not None:
                k, how = upper_bound(e["?b"], anc, ctxinfo)
                # a loop that also consumes a token per iteration (parser) is L2 regardless
                consumes = any(isinstance(s, tuple) and len(s) > 1 and s[0] == "call" and s[1] in ctxinfo.get("MC", set()) for s in subterms(node[3]))
                if k is not None:
                    lo = lit_int(strip_casts(e["?a"])) or 0
                    n = max(0, k - lo + (1 if it[0] == "rangei" else 0))
                    inner = [s_ for s_ in subterms(node[3]) if isinstance(s_, tuple) and s_ and s_[0] in ("for", "loop")]
                    if inner and not consumes:
                        run.ob(False, "loop|%s|nested-in-counted" % key0, "C02 no loop is nested inside a constant-bounded loop (the bounds would multiply)", "%s (%s)" % (f.key, f.file), "a loop inside the body of a loop bounded by %d" % n)
                    if not consumes:
                        kmax.append((n, key0, how))
                    run.ob(True, "loop|%s|range|%d" % (key0, counts["loops"]), "C02 L3", f.key, distinct="loop|%s|range|%s" % (key0, how), sample={"fn": key0, "loop": T.show(it)[:80], "class": "L3", "bound": n, "provenance": how})
                    counts["L3"] += 1
                elif consumes:
                    run.ob(True, "loop|%s|range-consuming|%d" % (key0, counts["loops"]), "C02 L2", f.key, distinct="loop|%s|range-consuming" % key0)
                    counts["L2"] += 1
                else:
                    run.ob(False, "loop|%s|range-unbounded" % key0, "C02 L3 a counted loop needs an upper-bound provenance (literal, min/clamp, dominating guard)", "%s (%s)" % (f.key, f.file),
                           "range end %s: %s -- the iteration count depends on the magnitude of a value" % (T.show(e["?b"])[:120], how))
                return
            run.ob(False, "loop|%s|for-unrecognised" % key0, "C02 every loop falls in class L1-L4", "%s (%s)" % (f.key, f.file), "UNRECOGNISED iterator %s" % T.show(it)[:160])
            return
        if h == "loop":
            counts["loops"] += 1
            body = node[1]
            # L1: while let Some(c) = <finite iter>.peek() { ... next() ... else break }
            calls = [s for s in subterms(body) if isinstance(s, tuple) and len(s) > 1 and s[0] == "call" and isinstance(s[1], str)]
            names = [c[1] for c in calls]
            if every_cycle_passes(body, lambda c: c[1] in ("Chars.next",) ):
                run.ob(True, "loop|%s|scan|%d" % (key0, counts["loops"]), "C02 L1", f.key, distinct="loop|%s|scan" % key0, sample={"fn": key0, "loop": "while let Some(c) = peek() { .. next() .. }", "class": "L1 consumes one character per iteration"} if counts["L1"] < 2 else None)
                counts["L1"] += 1
                return
            MC = ctxinfo.get("MC", set())
            if every_cycle_passes(body, lambda c: c[1] in MC):
                run.ob(True, "loop|%s|parser|%d" % (key0, counts["loops"]), "C02 L2", f.key, distinct="loop|%s|parser" % key0, sample={"fn": key0, "loop": "parser loop", "class": "L2 every iteration passes a token-consuming call"})
                counts["L2"] += 1
                return
            # L4 Euclid: while b != 0 { r = a rem b; a = b; b = r }
            e = M(("if", ("op", "eq", "i64", ("var", "?b"), ("lit", "0", "i64")), ("break",), "?body"), body)
            if e is not None:
                bb = e["?body"]
                e2 = M(("seq", ("let", "?r", ("call", "?rem", ("var", "?a"), ("var", e["?b"]))), ("set", ("var", "?a"), "_"), ("set", ("var", e["?b"]), ("var", "?r"))), bb) or \
                    M(("seq", ("let", "?r", ("op", "rem", "i64", ("var", "?a"), ("var", e["?b"]))), ("set", ("var", "?a"), "_"), ("set", ("var", e["?b"]), ("var", "?r"))), bb)
                if e2 is not None and (e2.get("?rem") in (None, "i64::wrapping_rem", "i64::checked_rem", "i64::rem_euclid", "i64::wrapping_rem_euclid")):
                    kmax.append((92, key0, "Euclid: |b| strictly decreases (b := _ % b); at most 92 steps for i64 (Lame)"))
                    run.ob(True, "loop|%s|euclid" % key0, "C02 L4", f.key, sample={"fn": key0, "loop": "while b != 0 { b := a % b }", "class": "L4", "bound": 92})
                    counts["L4"] += 1
                    return
            run.ob(False, "loop|%s|unbounded" % key0, "C02 every loop is input-consuming, token-consuming, constant-bounded or Euclid-form", "%s (%s)" % (f.key, f.file),
                   "value-driven loop with no extracted bound: %s" % T.show(body)[:300])
    walk_ctx(t, v)


def every_cycle_passes(body, is_consuming):
    """Conservative structural version of must-pass-through for a `loop` body: every path that reaches the
    end of the body (i.e. continues) contains a consuming call; paths ending in break/return are free."""
    def cont(t):
        """(may_continue_without_consuming, may_continue) for term t evaluated as a statement"""
        # returns set of outcomes: 'C' continue with consumption, 'N' continue without, 'X' exits
        if not isinstance(t, tuple) or not t:
            return {"N"}
        h = t[0]
        if h in ("break", "return"):
            return {"X"}
        if h == "continue":
            return {"N"}
        if h == "seq":
            states = {"N"}
            for x in t[1:]:
                nxt = set()
                r = cont(x)
                for s in states:
                    if s == "X":
                        nxt.add("X")
                        continue
                    for o in r:
                        if o == "X":
                            nxt.add("X")
                        elif o == "C" or s == "C":
                            nxt.add("C")
                        else:
                            nxt.add("N")
                states = nxt
            return states
        if h == "if":
            c = cont(t[1]) if False else ({"C"} if has_consuming(t[1]) else {"N"})
            out = set()
            for br in t[2:]:
                for o in cont(br):
                    if o == "X":
                        out.add("X")
                    elif o == "C" or "C" in c:
                        out.add("C")
                    else:
                        out.add("N")
            return out
        if h == "match":
            c = {"C"} if has_consuming(t[1]) else {"N"}
            out = set()
            for arm in t[2:]:
                for o in cont(arm[-1]):
                    if o == "X":
                        out.add("X")
                    elif o == "C" or "C" in c:
                        out.add("C")
                    else:
                        out.add("N")
            return out
        if h in ("loop", "for"):
            return {"N"}
        # expression statement: `?` may exit
        o = {"C"} if has_consuming(t) else {"N"}
        if any(isinstance(s, tuple) and s and s[0] in ("try", "return") for s in subterms(t)):
            o = o | {"X"}
        return o

    def has_consuming(t):
        return any(isinstance(s, tuple) and len(s) > 1 and s[0] == "call" and isinstance(s[1], str) and is_consuming(s) for s in subterms(t))
    return "N" not in cont(body)


def must_consume_set(m):
    """Least fixpoint: parser functions all of whose non-error paths pass a token-consuming call."""
    names = ["parse", "generate_ast", "function_static_arguments", "function_arguments", "find_item_list", "parse_number", "implicit_multiply", "get_enclosed_elements_with_impl_mult", "check_paren", "convert_token_to_node"]
    terms = {}
    for n in names:
        f = m.tb.fn("::parser::Parser::" + n)
        if f is not None:
            terms["P." + n] = m.tb.parser_term(f)
    MC = {CONSUME_TOKEN}
    changed = True

    def all_paths_consume(t, MC):
        # outcomes of evaluating t: 'C' normal completion having consumed, 'N' normal completion without, 'E' error/diverge
        def ev(t):
            if not isinstance(t, tuple) or not t:
                return {"N"}
            h = t[0]
            if h == "Err":
                return {"E"}
            if h == "return":
                r = ev(t[1])
                return {("RC" if o == "C" else ("E" if o == "E" else "RN")) for o in r}
            if h == "break":
                return {"N"}
            if h == "seq":
                states = {"N"}
                for x in t[1:]:
                    nxt = set()
                    r = ev(x)
                    for s in states:
                        if s in ("E", "RC", "RN"):
                            nxt.add(s)
                            continue
                        for o in r:
                            if o in ("E", "RC"):
                                nxt.add(o)
                            elif o == "RN":
                                nxt.add("RC" if s == "C" else "RN")
                            elif o == "C" or s == "C":
                                nxt.add("C")
                            else:
                                nxt.add("N")
                    states = nxt
                return states
            if h in ("if", "match"):
                cond = t[1]
                c = ev(cond)
                branches = t[2:] if h == "if" else [a[-1] for a in t[2:]]
                out = set()
                for s in c:
                    if s in ("E", "RC", "RN"):
                        out.add(s)
                        continue
                    for br in branches:
                        for o in ev(br):
                            if o in ("E", "RC"):
                                out.add(o)
                            elif o == "RN":
                                out.add("RC" if s == "C" else "RN")
                            elif o == "C" or s == "C":
                                out.add("C")
                            else:
                                out.add("N")
                return out
            if h == "loop":
                # a loop may run zero times (exit by break at once): contributes what one partial pass guarantees: nothing
                inner = ev(t[1])
                return {o for o in inner if o in ("E", "RC", "RN")} | {"N"}
            if h == "for":
                inner = ev(t[3])
                return {o for o in inner if o in ("E", "RC", "RN")} | {"N"}
            if h == "lambda":
                return {"N"}
            if h == "try":
                r = ev(t[1])
                return r | {"E"}
            if h == "call" and isinstance(t[1], str):
                states = {"N"}
                for x in t[2:]:
                    nxt = set()
                    for s in states:
                        for o in ev(x):
                            if s in ("E", "RC", "RN"):
                                nxt.add(s)
                            elif o in ("E", "RC", "RN"):
                                nxt.add(o)
                            else:
                                nxt.add("C" if (o == "C" or s == "C") else "N")
                    states = nxt
                if t[1] in MC:
                    states = {("C" if s in ("N", "C") else s) for s in states}
                return states
            states = {"N"}
            for x in t[1:]:
                nxt = set()
                for s in states:
                    for o in ev(x):
                        if s in ("E", "RC", "RN"):
                            nxt.add(s)
                        elif o in ("E", "RC", "RN"):
                            nxt.add(o)
                        else:
                            nxt.add("C" if (o == "C" or s == "C") else "N")
                states = nxt
            return states
        r = ev(t)
        return not ({"N", "RN"} & r)
    while changed:
        changed = False
        for n, t in terms.items():
            if n not in MC and all_paths_consume(t, MC):
                MC.add(n)
                changed = True
    return MC, terms


def nonprogress_edges(terms, MC):
    """call edges F -> G (parser functions) that can happen before any token was consumed in F"""
    edges = set()

    def scan(t, consumed, F):
        """returns set of possible 'consumed' states after t; records edges"""
        if not isinstance(t, tuple) or not t:
            return {consumed}
        h = t[0]
        if h in ("Err",):
            return set()
        if h == "return":
            scan(t[1], consumed, F)
            return set()
        if h == "seq":
            states = {consumed}
            for x in t[1:]:
                nxt = set()
                for s in states:
                    nxt |= scan(x, s, F)
                states = nxt
            return states
        if h in ("if", "match"):
            st = scan(t[1], consumed, F)
            out = set()
            branches = t[2:] if h == "if" else [a[-1] for a in t[2:]]
            for s in st:
                for br in branches:
                    out |= scan(br, s, F)
            return out
        if h in ("loop",):
            st = scan(t[1], consumed, F)
            st2 = set()
            for s in st | {consumed}:
                st2 |= scan(t[1], s, F)
            return st | st2 | {consumed}
        if h == "for":
            st = scan(t[2], consumed, F)
            out = set(st)
            for s in st:
                r = scan(t[3], s, F)
                out |= r
                for s2 in r:
                    out |= scan(t[3], s2, F)
            return out
        if h == "lambda":
            return {consumed}
        if h == "call" and isinstance(t[1], str):
            states = {consumed}
            for x in t[2:]:
                nxt = set()
                for s in states:
                    nxt |= scan(x, s, F)
                states = nxt
            if t[1].startswith("P.") and t[1] in terms:
                for s in states:
                    if not s:
                        edges.add((F, t[1]))
            if t[1] in MC:
                return {True} if states else set()
            return states
        states = {consumed}
        for x in t[1:]:
            nxt = set()
            for s in states:
                nxt |= scan(x, s, F)
            states = nxt
        return states
    for F, t in terms.items():
        scan(t, False, F)
    return edges


def has_cycle(nodes, edges):
    adj = defaultdict(set)
    for a, b in edges:
        adj[a].add(b)
    color = {}

    def dfs(u, path):
        color[u] = 1
        for v in adj[u]:
            if color.get(v) == 1:
                return path + [u, v]
            if v not in color:
                r = dfs(v, path + [u])
                if r:
                    return r
        color[u] = 2
        return None
    for n in nodes:
        if n not in color:
            r = dfs(n, [])
            if r:
                return r
    return None


def main(tier):
    run, F, models = setup(PID, tier, LEVEL)
    run.trusted = ["std iterators over a string / vector are finite", "Lame's theorem for Euclid's algorithm", "derived Clone/PartialEq/Debug and drop glue recurse structurally over a finite tree (not counted steps)",
                   "loops inside std / rust_decimal / num_complex callees are bounded (rust_decimal's series loops have literal bounds)"]
    run.assumptions = ["work inside derived Clone/drop glue (quadratic in the worst case) is not a counted step of the property"]
    if F is None:
        return run.finish("loop/recursion obligations", "./check C02 --tier %s" % tier)
    from ..canary import loop_canary
    loop_canary(run)
    walkers = set()
    reach = F.scope()
    kmax = []
    counts = defaultdict(int)
    scc_sizes = []
    for ev, m in models.items():
        MC, pterms = must_consume_set(m)
        need = {"P.generate_ast", "P.parse_number", "P.convert_token_to_node", "P.function_static_arguments", "P.get_enclosed_elements_with_impl_mult", "P.check_paren"}
        if any(a == "var" and ev in evs for (a, evs) in spec.FUNCTIONS.values()):
            need |= {"P.find_item_list", "P.function_arguments"}
        need = {n_ for n_ in need if m.tb.fn("::parser::Parser::" + n_[2:]) is not None or n_ in ("P.generate_ast", "P.parse_number", "P.convert_token_to_node")}
        run.ob(need <= MC, "must-consume|%s" % ev, "C02 every non-error path through the parsing functions consumes at least one token", where(m, "::parser::Parser::parse_number"),
               "not token-consuming on every path: %s" % sorted(need - MC), sample={"evaluator": ev, "must_consume": sorted(MC)})
        # get_next_token consumes one character unless at end of input; Tokenizer::next starts with expr.next()
        tn = m.lex.term if m.lex.ok else None
        first_next = tn is not None and (M(("seq", ("let", "?v", ("call", "Chars.next", ("field", ("param", "self"), "expr"))), "..."), tn) is not None or (isinstance(tn, tuple) and tn[0] == "match" and tn[1] == ("call", "Chars.next", ("field", ("param", "self"), "expr"))))
        run.ob(first_next, "token-consumes-char|%s" % ev, "C02 every token other than end-of-input consumes at least one character (Tokenizer::next starts with expr.next())", where(m, "::tokenizer::Tokenizer"), "")
        # recursion: non-progress call edges among parser functions must be acyclic
        np_edges = nonprogress_edges(pterms, MC)
        cyc = has_cycle(list(pterms), np_edges)
        run.ob(cyc is None, "recursion|parser|%s" % ev, "C02 every recursion cycle of the parser consumes at least one token (the graph of calls made before any token is consumed is acyclic)",
               where(m, "::parser::Parser::generate_ast"), "cycle without progress: %s" % (" -> ".join(cyc) if cyc else ""), sample={"evaluator": ev, "non_progress_edges": sorted("%s->%s" % e for e in np_edges)})
        scc_sizes.append(len(pterms))
        # parameter literal call sites (function_static_arguments(n))
        lits = []
        for g in F.fns:
            if g.evaluator != ev or "::parser::" not in g.key or not g.thir or g.kind == "Closure":
                continue
            for s in subterms(m.tb.fn_term(g)):
                if isinstance(s, tuple) and len(s) == 4 and s[0] == "call" and s[1] == "P.function_static_arguments":
                    k = lit_int(s[3])
                    lits.append(k)
        plits = {"n": [k for k in lits if k is not None]} if lits and all(k is not None for k in lits) else {}
        # loops in every reachable function of this evaluator, and (once, with the first evaluator's model) in every
        # reachable function that belongs to no evaluator (utils helpers shared by the evaluators)
        shared = [g for g in F.fns if g.evaluator is None and g.path in reach and g.thir and not g.derived and g.kind != "Closure"] if ev == sorted(models)[0] else []
        counts["shared_fns"] += len(shared)
        for g in [g for g in F.fns if g.evaluator == ev] + shared:
            if g.path not in reach or not g.thir or g.derived:
                continue
            if g.kind == "Closure":
                continue
            in_ev = (lambda c, ev=ev: c.evaluator == ev) if g.evaluator == ev else (lambda c: True)
            is_eval = m.tb.eval_fn() is not None and g.path == m.tb.eval_fn().path
            t = m.tb.fn_term(g, inline_pure=True, eval_fn=(m.tb.eval_names() if is_eval else None))
            if "::tokenizer::" in g.key:
                t = T.alpha(T.normalise(t))      # rewrites keyed on the shortened names (next_if loops) apply now
            info = {"MC": MC, "param_literals": plits if g.key.endswith("function_static_arguments") else {}}
            if "::parser::" not in g.key and "::tokenizer::" not in g.key and not is_eval:
                def callsite_bound(pname, g=g, m=m, ev=ev, MC=MC, in_ev=in_ev):
                    names = [nm for (_, nm, _) in T.param_ids(g)]
                    if pname not in names:
                        return None
                    idx = names.index(pname)
                    found = []
                    for c in F.fns:
                        if not in_ev(c) or c.path not in reach or not c.thir or c.derived or c.kind == "Closure" or c is g:
                            continue
                        mc_ = models.get(c.evaluator, m)
                        ce = mc_.tb.eval_fn() is not None and c.path == mc_.tb.eval_fn().path
                        ct = mc_.tb.fn_term(c, inline_pure=True, eval_fn=(mc_.tb.eval_names() if ce else None))

                        def v(node, anc):
                            if node and node[0] == "call" and isinstance(node[1], str) and len(node) > 2 + idx and m.tb.resolve_local(node[1]) is g:
                                found.append(upper_bound(node[2 + idx], anc, {"MC": MC}) + (c.short,))
                        walk_ctx(ct, v)
                    if not found or any(k is None for (k, _, _) in found):
                        return None
                    k, how, who = max(found)
                    return k, "parameter %s: bounded at every call site (%s in %s)" % (pname, how, who)
                info["callsite_bound"] = callsite_bound
            before = counts["loops"]
            classify_loops(run, g, t, info, kmax, counts)
            # cross-check with MIR: number of natural loops (the closures' loops are in their own bodies)
            nl = 0
            if g.mir:
                cfg = CFG(g.mir)
                nl = len(cfg.natural_loops())
            found = counts["loops"] - before
            lam_loops = 0
            for cl in F.fns:
                if cl.kind == "Closure" and cl.parent == g.path and cl.mir:
                    lam_loops += len(CFG(cl.mir).natural_loops())
            run.ob(nl + lam_loops <= found, "loop-count|%s" % g.key.replace("parser::Parser::", ""), "C02 every natural loop of the MIR is accounted for by a classified loop construct", "%s (%s)" % (g.key, g.file),
                   "MIR has %d natural loops (+%d in closures), THIR classification saw %d" % (nl, lam_loops, found), distinct="loop-count|%s" % g.key)
        # eval recursion: every Node handed to a recursive call is a strict sub-term of the argument.  Typed argument
        # (sc/treewalk.py): the evaluator constructs no Node and uses Nodes only by passing them on (rules B, U), so every
        # Node it can pass is a sub-term of its argument; the walk uses its own argument only as the scrutinee of its
        # top-level match, whose arms bind the children (rules P, self)
        ef = m.tb.eval_fn()
        if ef is not None:
            from ..treewalk import analyse as tw_analyse
            wn = m.tb.eval_names()
            walkers.update(wn if isinstance(wn, tuple) else (wn,))
            viol, nuses, nfns = tw_analyse(F, ev, set(m.tb._cache.get("walker_names", ())), None)
            bad = ["%s: %s" % (k_, d_) for (k_, w_, d_) in viol]
            run.ob(not bad, "recursion|eval|%s" % ev, "C02 eval recurses only on strict sub-terms of its argument", where(m, "::ast::eval"), "; ".join(bad[:3])[:400], sample={"evaluator": ev, "node_typed_uses_inspected": nuses})
    # linear use of children: each child is evaluated at most once per evaluation of its node (typed rule, sc/linear.py)
    from ..linear import analyse as linear_analyse
    for ev, m in models.items():
        m.tb.eval_fn()
        viol, nv, nf = linear_analyse(F, ev, set(m.tb._cache.get("walker_names", ())))
        for key, wh, detail in viol:
            run.ob(False, "linear|%s|%s" % (ev, key), "C02 a child is evaluated at most once per evaluation of its node (otherwise work multiplies with the nesting depth)", wh, detail)
        run.ob(True, "linear|%s" % ev, "C02 linear use of children", ev, sample={"evaluator": ev, "functions_scanned": nf, "node_or_list_variables": nv, "evaluated_more_than_once": len(viol)})
    # call-graph SCCs in reach: only the parser SCCs, eval, and derived impls may be recursive
    edges, _, _ = F.callgraph()
    nodes = [p for p in reach]
    idx = {}
    low = {}
    st = []
    on = set()
    sccs = []
    import sys
    sys.setrecursionlimit(10000)
    cnt = [0]

    def sc(v):
        idx[v] = low[v] = cnt[0]
        cnt[0] += 1
        st.append(v)
        on.add(v)
        for w in edges.get(v, ()):
            if w not in reach:
                continue
            if w not in idx:
                sc(w)
                low[v] = min(low[v], low[w])
            elif w in on:
                low[v] = min(low[v], idx[w])
        if low[v] == idx[v]:
            comp = []
            while True:
                w = st.pop()
                on.discard(w)
                comp.append(w)
                if w == v:
                    break
            if len(comp) > 1 or v in edges.get(v, ()):
                sccs.append(comp)
    for v in nodes:
        if v not in idx:
            sc(v)
    for comp in sccs:
        fs = [F.by_path[p] for p in comp]
        kinds = set()
        for f in fs:
            if f.derived:
                kinds.add("derived")
            elif "::parser::Parser" in f.key or (f.kind == "Closure" and "::parser::" in f.key):
                kinds.add("parser")
            elif f.path in walkers or (f.kind == "Closure" and f.parent in walkers):
                kinds.add("eval")
            elif any(p_ in walkers for p_ in comp) and f.evaluator and "::parser::" not in f.key and "::tokenizer::" not in f.key:
                # a helper through which eval recurses: covered by the arm-level rule above (the helper is inlined
                # into the arms; a helper that could not be inlined is reported there)
                kinds.add("eval")
            else:
                kinds.add("other:" + f.key)
        ok = len(kinds) == 1 and not any(k.startswith("other") for k in kinds)
        run.ob(ok, "scc|%s" % sorted(f.key for f in fs)[0], "C02 the only recursion is the parser's mutual recursion, eval's self-recursion and compiler-derived impls", ", ".join(sorted(f.short for f in fs))[:200], "recursive component of kinds %s" % sorted(kinds),
               distinct="scc|%s" % sorted(kinds)[0])
    # budget arithmetic
    K = max([k for k, _, _ in kmax] + [0])
    c1 = max(scc_sizes + [0]) + 2
    run.ob(c1 + 2 + K <= 256, "budget", "C02 steps <= tokens * (c1 + 2 + K_max) + O(1) with c1 + 2 + K_max <= 256", "extracted constants",
           "c1 = %d, K_max = %d (%s)" % (c1, K, [x for x in kmax if x[0] == K][:1]), sample={"c1": c1, "K_max": K, "inequality": "%d + 2 + %d = %d <= 256" % (c1, K, c1 + 2 + K), "bounds": sorted(set((k, fn) for k, fn, _ in kmax))[:12]})
    # no loop nested inside a counted loop (bounds multiply otherwise)
    run.coverage_extra["loop_classes"] = dict(counts)
    run.floor("loops classified", counts["loops"], 25)
    run.floor("evaluators analysed", len(models), 5)
    report_issues(run, models, tables={"T_eval", "T_lex"})
    return run.finish("classification of every loop construct (cross-checked against the MIR's natural loops), must-consume fixpoint and progress-edge acyclicity for the parser recursion, sub-term provenance for eval, SCC census, budget inequality", "./check C02 --tier %s" % tier)
