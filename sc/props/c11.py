"""C11 — aggregates return the true aggregate for any arity and argument order (DESIGN §5 C11).
Each aggregate arm is summarised as a fold (seed, step, finish) over the argument list and compared
with the admissible schemas; Euclid's algorithm is checked on the gcd helper's loop transformer."""
from .. import spec, thir as T, chain
from ..pat import M, parse as P, unify, subterms
from .common import setup, report_issues, where

LEVEL = "proof"
PID = "C11"
ITER = ("call", "iter", ("C0",))
LEN = ("call", "Vec::len", ("C0",))
AGG = {"eval_f64": ["Min", "Max", "Avg", "Med"], "eval_i64": ["Min", "Max", "Avg", "Med", "Gcd", "Lcm"], "eval_decimal": ["Min", "Max", "Avg", "Med"], "eval_number": ["Min", "Max", "Avg", "Med"]}
SURFACE = {"Min": "min(", "Max": "max(", "Avg": "avg(", "Med": "med(", "Gcd": "gcd(", "Lcm": "lcm("}
# identity elements of min / max per value type (bits as printed by the extractor)
MIN_SEEDS = {"eval_f64": [("const", "core::f64::<impl f64>::INFINITY", "9218868437227405312"), ("const", "std::f64::INFINITY", "9218868437227405312")],
             "eval_i64": [("const", "core::num::<impl i64>::MAX", "9223372036854775807"), ("const", "std::i64::MAX", "9223372036854775807")],
             "eval_decimal": [("const", "Decimal::MAX", None)]}
MAX_SEEDS = {"eval_f64": [("const", "core::f64::<impl f64>::NEG_INFINITY", "18442240474082181120"), ("const", "std::f64::NEG_INFINITY", "18442240474082181120")],
             "eval_i64": [("const", "core::num::<impl i64>::MIN", "9223372036854775808"), ("const", "std::i64::MIN", "9223372036854775808")],
             "eval_decimal": [("const", "Decimal::MIN", None)]}
MINFN = {"eval_f64": "f64::min", "eval_i64": "<i64 as cmp::Ord>::min", "eval_decimal": "Decimal::min"}
MAXFN = {"eval_f64": "f64::max", "eval_i64": "<i64 as cmp::Ord>::max", "eval_decimal": "Decimal::max"}
NUMF = lambda x: ("match", x, (("pvar", "Number::Float", ("bind", "?f")), ("var", "?f")), (("pvar", "Number::Integer", ("bind", "?i")), ("cast", "i64", "f64", ("var", "?i"))))
NUMF2 = lambda x: ("match", x, (("pvar", "Number::Integer", ("bind", "?i2")), ("cast", "i64", "f64", ("var", "?i2"))), (("pvar", "Number::Float", ("bind", "?f2")), ("var", "?f2")))


def as_f64(x, tag):
    """the two spellings of `Number as f64` with distinct metavariables"""
    a = ("match", x, (("pvar", "Number::Float", ("bind", "?f" + tag)), ("var", "?f" + tag)), (("pvar", "Number::Integer", ("bind", "?i" + tag)), ("cast", "i64", "f64", ("var", "?i" + tag))))
    b = ("match", x, (("pvar", "Number::Integer", ("bind", "?i" + tag)), ("cast", "i64", "f64", ("var", "?i" + tag))), (("pvar", "Number::Float", ("bind", "?f" + tag)), ("var", "?f" + tag)))
    return ("|", a, b)


def single_shortcut(t, ev, absval=False):
    """else-branch for <= 1 argument: first() -> Some(a) => eval(a) (gcd/lcm: |eval(a)|)"""
    e = M(("match", ("call", "[T]::first", ("C0",)), (("pvar", "Option::Some", ("bind", "?a")), "?some"), (("pvar", "Option::None"), "_")), t)
    if e is None:
        return False
    ea = ("ev", ("var", e["?a"]))
    if absval:
        return e["?some"] == ("lift", ("call", "i64::checked_abs", ea))
    return e["?some"] == ("Ok", ea)


def minmax_fold(ev, ctor, t):
    """(ok, detail): the Min/Max arm term t is the minimum/maximum fold of its evaluator's value type"""
    ok, detail = False, "UNRECOGNISED fold: " + T.show(t)[:300]
    e = M(("if", ("op", "gt", "usize", LEN, ("lit", "1", "usize")), "?fold", "?single"), t)
    if e is not None:
        fold, single = e["?fold"], e["?single"]
        okS = single_shortcut(single, ev)
        if ev != "eval_number":
            fn = MINFN[ev] if ctor == "Min" else MAXFN[ev]
            seeds = MIN_SEEDS[ev] if ctor == "Min" else MAX_SEEDS[ev]
            f = M(("seq", ("let", "?m", "?seed"), ("for", ("bind", "?x"), ITER, ("set", ("var", "?m"), ("call", fn, "?p", "?q"))), ("Ok", ("var", "?m"))), fold)
            if f is not None:
                args = {f["?p"], f["?q"]}
                okstep = args == {("ev", ("var", f["?x"])), ("var", f["?m"])}
                okseed = any(f["?seed"][:2] == s[:2] and (s[2] is None or f["?seed"][2] == s[2]) for s in seeds)
                ok = okstep and okseed and okS
                detail = "step %s(%s), seed %s%s%s" % (fn, ", ".join(T.show(x) for x in (f["?p"], f["?q"])), T.show(f["?seed"]), "" if okseed else " -- seed is not the identity of the step (it absorbs every argument)", "" if okS else " -- single-argument shortcut is not eval(arg)")
            else:
                g = M(("seq", ("let", "?m", "?seed"), ("for", ("bind", "?x"), ITER, "?body"), ("Ok", ("var", "?m"))), fold)
                if g is not None:
                    detail = "step is not %s(acc, x): %s" % (fn, T.show(g["?body"])[:200])
        else:
            op = "lt" if ctor == "Min" else "gt"
            body = ("match", ("var", "?m"),
                    (("pvar", "Option::Some", ("bind", "?l")), ("if", ("op", "?cmp", "f64", as_f64(("var", "?l"), "1"), as_f64(("ev", ("var", "?x")), "2")), ("set", ("var", "?m"), ("Some", ("var", "?l"))), ("set", ("var", "?m"), ("Some", ("ev", ("var", "?x")))))),
                    (("pvar", "Option::None"), ("set", ("var", "?m"), ("Some", ("ev", ("var", "?x"))))))
            f = M(("seq", ("let", "?m", ("None",)), ("for", ("bind", "?x"), ITER, body), ("Ok", ("call", "Option::unwrap", ("var", "?m")))), fold)
            if f is not None:
                # (the shape of the pinned tree) two Integers compared through their doubles: above 2^53 distinct integers share a double,
                # and the fold then keeps the wrong one -- min(2^53, 2^53+1) = 2^53+1
                ok = False
                detail = "compares two Integers through their double values (acc %s x): not the minimum/maximum of the integers above 2^53" % f["?cmp"]
            # Integer with Integer: exact i64 comparison; any Float involved: comparison of the double values
            FCMP = ("op", "?cmp", "f64", as_f64(("var", "?l"), "1"), as_f64(("ev", ("var", "?x")), "2"))
            ICMP = ("|", ("call", "?icmp", ("var", "?a"), ("var", "?b")), ("op", "?iop", "i64", ("var", "?a"), ("var", "?b")))
            cond2 = ("match", ("tuple", ("var", "?l"), ("ev", ("var", "?x"))), (("pleaf", ("pvar", "Number::Integer", ("bind", "?a")), ("pvar", "Number::Integer", ("bind", "?b"))), ICMP), ("_", FCMP))
            body2 = ("match", ("var", "?m"),
                     (("pvar", "Option::Some", ("bind", "?l")), ("if", cond2, ("set", ("var", "?m"), ("Some", ("var", "?l"))), ("set", ("var", "?m"), ("Some", ("ev", ("var", "?x")))))),
                     (("pvar", "Option::None"), ("set", ("var", "?m"), ("Some", ("ev", ("var", "?x"))))))
            f2 = M(("seq", ("let", "?m", ("None",)), ("for", ("bind", "?x"), ITER, body2), ("Ok", ("call", "Option::unwrap", ("var", "?m")))), fold)
            if f2 is not None:
                want_f = (op, "le" if op == "lt" else "ge")
                icmp = f2.get("?iop") or str(f2.get("?icmp", "")).split("::")[-1]
                ok = f2["?cmp"] in want_f and icmp in want_f and okS
                detail = "keeps the accumulator when acc %s x: Integers compared exactly (%s), otherwise on the double values (needs %s)" % (f2["?cmp"], icmp, op)
    return ok, detail


def avg_fold(ev, t):
    """avg = (sum of all arguments, seeded 0) / count, in the evaluator's own arithmetic"""
    ok, detail = False, "UNRECOGNISED: " + T.show(t)[:300]
    if ev == "eval_f64":
        ok = M(("seq", ("let", "?m", ("lit", "0.0", "f64")), ("for", ("bind", "?x"), ITER, ("setop", "add", "f64", ("var", "?m"), ("ev", ("var", "?x")))), ("Ok", ("op", "div", "f64", ("var", "?m"), ("cast", "usize", "f64", LEN)))), t) is not None
    elif ev == "eval_number":
        ok = M(("seq", ("let", "?m", ("lit", "0.0", "f64")), ("for", ("bind", "?x"), ITER, ("setop", "add", "f64", ("var", "?m"), as_f64(("ev", ("var", "?x")), "1"))), ("Ok", ("call", "<Number as convert::From>::from", ("op", "div", "f64", ("var", "?m"), ("cast", "usize", "f64", LEN))))), t) is not None
    elif ev == "eval_i64":
        ok = M(("seq", ("let", "?m", ("lit", "0", "i64")), ("for", ("bind", "?x"), ITER, ("set", ("var", "?m"), ("try", ("lift", ("call", "i64::checked_add", ("var", "?m"), ("ev", ("var", "?x"))))))), ("lift", ("call", "i64::checked_div", ("var", "?m"), ("cast", "usize", "i64", LEN)))), t) is not None
    elif ev == "eval_decimal":
        ok = M(("seq", ("let", "?m", ("const", "Decimal::ZERO", "_")), ("for", ("bind", "?x"), ITER, ("set", ("var", "?m"), ("try", ("lift", ("call", "Decimal::checked_add", ("var", "?m"), ("ev", ("var", "?x"))))))), ("lift", ("call", "Decimal::checked_div", ("var", "?m"), ("call", "Decimal::new", ("cast", "usize", "i64", LEN), ("lit", "0", "u32"))))), t) is not None
    return ok, ("sum seeded 0, divided by len" if ok else detail)


def med_fold(ev, t):
    """med = collect, sort ascending with a total comparator, middle element / mean of the two middle elements"""
    ok, detail = False, "UNRECOGNISED: " + T.show(t)[:400]
    e = M(("seq", ("let", "?v", ("call", "Vec::new")), ("for", ("bind", "?x"), ITER, ("call", "Vec::push", ("var", "?v"), ("ev", ("var", "?x")))), ("call", "[T]::sort_by", ("var", "?v"), ("lambda", (("bind", "?a"), ("bind", "?b")), "?cmp")),
           ("if", ("op", "eq", "usize", ("op", "rem", "usize", ("call", "Vec::len", ("var", "?v")), ("lit", "2", "usize")), ("lit", "0", "usize")), "?even", "?odd")), t)
    if e is not None:
        V = ("var", e["?v"])
        HALF = ("op", "shr", "usize", ("call", "Vec::len", V), ("lit", "1", "i32"))
        vt = None
        for s in subterms(t):
            if isinstance(s, tuple) and len(s) == 4 and s[0] == "call" and isinstance(s[1], str) and s[1].endswith("ops::Index>::index"):
                vt = s[1]
        HI = ("call", vt, V, HALF)
        LO = ("call", vt, V, ("op", "sub", "usize", HALF, ("lit", "1", "usize")))
        A, B = ("var", e["?a"]), ("var", e["?b"])
        cmp_ = e["?cmp"]
        if ev == "eval_f64":
            okc = cmp_ == ("call", "f64::total_cmp", A, B)
            okeven = e["?even"] in (("Ok", ("op", "div", "f64", ("op", "add", "f64", HI, LO), ("lit", "2.0", "f64"))), ("Ok", ("op", "div", "f64", ("op", "add", "f64", LO, HI), ("lit", "2.0", "f64"))))
        elif ev == "eval_i64":
            okc = cmp_ in (("call", "Option::unwrap", ("call", "<i64 as cmp::PartialOrd>::partial_cmp", A, B)), ("call", "<i64 as cmp::Ord>::cmp", A, B))
            okeven = M(("lift", ("bindopt", ("call", "i64::checked_add", HI, LO), ("bind", "?s"), ("call", "i64::checked_div", ("var", "?s"), ("lit", "2", "i64")))), e["?even"]) is not None
        elif ev == "eval_decimal":
            okc = cmp_ in (("call", "Option::unwrap", ("call", "<Decimal as cmp::PartialOrd>::partial_cmp", A, B)), ("call", "<Decimal as cmp::Ord>::cmp", A, B))
            okeven = M(("lift", ("bindopt", ("call", "Decimal::checked_add", HI, LO), ("bind", "?s"), ("call", "Decimal::checked_div", ("var", "?s"), ("call", "Decimal::new", ("lit", "2", "i64"), ("lit", "0", "u32"))))), e["?even"]) is not None
        else:
            okc = M(("call", "f64::total_cmp", as_f64(A, "1"), as_f64(B, "2")), cmp_) is not None
            okeven = M(("Ok", ("call", "<Number as convert::From>::from", ("op", "div", "f64", ("op", "add", "f64", as_f64(HI, "3"), as_f64(LO, "4")), ("lit", "2.0", "f64")))), e["?even"]) is not None
        okodd = e["?odd"] == ("Ok", HI)
        ok = okc and okeven and okodd
        detail = "comparator %s; even: %s; odd: %s" % ("ascending total order" if okc else "NOT an ascending total order on (a, b): " + T.show(cmp_)[:100], "mean of v[len/2] and v[len/2-1]" if okeven else "NOT the mean of the two middle values: " + T.show(e["?even"])[:160], "v[len/2]" if okodd else "NOT v[len/2]")
    return ok, detail


def main(tier):
    run, F, models = setup(PID, tier, LEVEL)
    run.trusted = ["min/max of the value type are commutative, associative, with the stated identity; f64::min/max ignore no finite argument", "sort with a total ascending comparator sorts",
                   "the property restricts arguments to finite values (NaN/inf outside)"]
    if F is None:
        return run.finish("fold schemas", "./check C11 --tier %s" % tier)
    for ev, names in AGG.items():
        if ev not in models:
            continue
        m = models[ev]
        W = where(m, "::ast::eval")
        arms = m.tb.eval_arms()
        for ctor in names:
            # the aggregate is identified by its documented name; the Node constructor it builds may be called anything
            r_, err_ = chain.function_chain(m, SURFACE[ctor])
            real = r_[0] if r_ else ctor
            a = arms.get(real)
            if a is None:
                run.ob(False, "arm|%s|%s" % (ev, ctor), "C11 aggregate arm present", W, "no arm for %s (%s)" % (SURFACE[ctor], err_))
                continue
            t = a["term"]
            key = "%s|%s" % (ev, ctor)
            where_ = "%s arm %s" % (W, ctor)
            # every element is obtained with `?` (no unwrap of eval)
            bad = [s for s in subterms(t) if isinstance(s, tuple) and len(s) == 3 and s[0] == "call" and s[1] in ("Result::unwrap", "Result::expect", "Result::unwrap_or", "Result::unwrap_or_default", "Result::ok") and isinstance(s[2], tuple) and s[2][:2] == ("call", "Ast.eval")]
            run.ob(not bad, "propagate|" + key, "C11 an argument that fails to evaluate makes the aggregate return Err", where_, T.show(bad[0])[:120] if bad else "")
            if ctor in ("Min", "Max"):
                ok, detail = minmax_fold(ev, ctor, t)
                run.ob(ok, "fold|" + key, "C11 %s is a fold with the %s step seeded with its identity (or the first element); one argument: its value" % (ctor.lower(), "minimum" if ctor == "Min" else "maximum"), where_, detail,
                       sample={"evaluator": ev, "aggregate": ctor, "schema": detail[:120]})
                if ok and ev == "eval_number":
                    # an Integer against a Float is still compared through the Integer's double: wrong when the Integer is above 2^53
                    run.ob(False, "order|eval_number|%s|mixed-through-f64" % ctor, "C11 the %s is that of the evaluated arguments: an Integer and a Float must be compared by value, not by the Integer's double" % ("minimum" if ctor == "Min" else "maximum"),
                           where_, "mixed Integer/Float pairs are compared on double values: max(9007199254740993,9007199254740992.0) = Float(9007199254740992.0)")
            elif ctor == "Avg":
                ok, detail = avg_fold(ev, t)
                run.ob(ok, "fold|" + key, "C11 avg is (sum of all arguments) / (number of arguments), seeded with 0", where_, "sum seeded 0, divided by len" if ok else detail, sample={"evaluator": ev, "aggregate": "Avg"})
            elif ctor == "Med":
                ok, detail = med_fold(ev, t)
                if ok and ev == "eval_number":
                    # the accepted comparator orders Integers by their double values: above 2^53 distinct integers tie, the (stable)
                    # sort keeps them in argument order, and the median then depends on how the arguments were written
                    run.ob(False, "order|eval_number|Med|integers-through-f64", "C11 the median is that of the evaluated arguments, independent of their order: Integers must be ordered as integers",
                           where_, "sort comparator is total_cmp on the operands' double values: med(9007199254740993,9007199254740992,9007199254740994) = 9007199254740992")
                run.ob(ok, "fold|" + key, "C11 med: collect, sort ascending with a total comparator, middle element / mean of the two middle elements", where_, detail, sample={"evaluator": ev, "aggregate": "Med", "schema": detail[:140]})
            elif ctor in ("Gcd", "Lcm"):
                helper = "Ast.gcd" if ctor == "Gcd" else "Ast.lcm"
                e = M(T.normalise(("if", ("op", "gt", "usize", LEN, ("lit", "1", "usize")),
                       ("seq", ("let", "?m", ("None",)), ("for", ("bind", "?x"), ITER, ("set", ("var", "?m"), ("match", ("var", "?m"), (("pvar", "Option::Some", ("bind", "?l")), ("Some", ("try", ("lift", ("call", helper, "?p", "?q"))))), (("pvar", "Option::None"), ("Some", ("ev", ("var", "?x"))))))), ("Ok", ("call", "Option::unwrap", ("var", "?m")))), "?single")), t)
                ok = e is not None and {e["?p"], e["?q"]} == {("var", e["?l"]), ("ev", ("var", e["?x"]))} and single_shortcut(e["?single"], ev, absval=True)
                run.ob(ok, "fold|" + key, "C11 %s folds the two-argument helper over the list, seeded with the first argument; one argument: its absolute value" % ctor.lower(), where_, "" if ok else "UNRECOGNISED: " + T.show(t)[:300],
                       sample={"evaluator": ev, "aggregate": ctor})
        if ev == "eval_i64":
            g = m.tb.helper_term("gcd")
            okg = g is not None and M(T.normalise(("seq", ("let", "?a", ("param", "?p1")), ("let", "?b", ("param", "?p2")), ("loop", ("if", ("op", "ne", "i64", ("var", "?b"), ("lit", "0", "i64")),
                                                                                                           ("seq", ("let", "?r", ("call", "i64::wrapping_rem", ("var", "?a"), ("var", "?b"))), ("set", ("var", "?a"), ("var", "?b")), ("set", ("var", "?b"), ("var", "?r"))), ("break",))),
                                        ("call", "i64::checked_abs", ("var", "?a")))), g) is not None
            run.ob(okg, "euclid|gcd", "C11 gcd helper is Euclid's algorithm: while b != 0 { (a, b) := (b, a mod b) }; |a|", where(m, "::ast::gcd"), "" if okg else "transformer mismatch: " + T.show(g)[:300], sample={"helper": "gcd", "transformer": "(a, b) := (b, a % b); finish |a|"})
            l = m.tb.helper_term("lcm")
            okl = l is not None and M(("if", ("op", "or", "bool", ("op", "eq", "i64", ("param", "?p1"), ("lit", "0", "i64")), ("op", "eq", "i64", ("param", "?p2"), ("lit", "0", "i64"))), ("return", ("Some", ("lit", "0", "i64"))),
                                        ("call", "i64::checked_abs", ("try", ("call", "i64::checked_mul", ("try", ("call", "i64::checked_div", ("param", "?p1"), ("try", ("call", "Ast.gcd", ("param", "?p1"), ("param", "?p2"))))), ("param", "?p2"))))), l) is not None
            run.ob(okl, "euclid|lcm", "C11 lcm(a, b) = |a / gcd(a, b) * b| with checked operations, 0 if either is 0", where(m, "::ast::lcm"), "" if okl else "mismatch: " + T.show(l)[:300])
        # parser side: the argument list handed to the aggregate holds each written argument exactly once, in order
        okl, why = m.list_shape()
        run.ob(bool(okl), "args-collected|%s" % ev, "C11 every written argument reaches the aggregate exactly once (local vector, one push per argument, also when aggregates are nested)", where(m, "::parser::Parser::find_item_list"), why)
        # parser side: empty list -> Err, avg() -> 0 (decided in C03 as arity check; repeated here relationally)
        arms_p, after = m.prim_functions()
        for name in ("min(", "max(", "avg(", "med(", "median(") + (("gcd(", "lcm(") if ev == "eval_i64" else ()):
            tv = m.tokvar(name)
            arm = arms_p.get(tv[1]) if isinstance(tv, tuple) else None
            ok = False
            if arm is not None:
                evs_, tail = arm
                if len(evs_) == 1 and evs_[0][0] == "fargs" and tail[0] == "if" and tail[1] == ("call", "Vec::is_empty", ("R1",)):
                    a_, b_ = tail[2], tail[3]
                    if name == "avg(":
                        z = a_[1][1] if a_[1][0] == "val" else None
                        ok = z is not None and M(("ctor", "?leaf", "?z"), z) is not None and (M(("lit", "?v", "_"), z[2]) is not None and float(z[2][1]) == 0.0 or z[2] in (("const", "Decimal::ZERO", None),) or M(("call", "Decimal::new", ("lit", "0", "i64"), "_"), z[2]) is not None or z[2] == ("ctor", "Number::Integer", ("lit", "0", "i64")) or (isinstance(z[2], tuple) and z[2][0] == "ctor" and z[2][1].startswith("Number::") and float(z[2][2][1]) == 0.0))
                    else:
                        ok = a_[1][0] == "ret" and a_[1][1][0] == "err"
                    ok = ok and b_[1][0] == "val" and M(("ctor", "?n", ("R1",)), b_[1][1]) is not None
            run.ob(ok, "empty|%s|%s" % (ev, name), "C11 avg() of no arguments is 0; every other aggregate rejects an empty list", where(m, "::parser::Parser::parse_number"), name)
    report_issues(run, models, tables={"T_eval", "T_prim", "T_lex"})
    run.floor("obligations", run.obligations, 60)
    return run.finish("fold-schema comparison of every aggregate arm (seed, step, finish), Euclid transformer of the gcd helper, empty-list handling in the parser", "./check C11 --tier %s" % tier)
