"""C14 — `@` denotes exactly the caller's placeholder value (DESIGN §5 C14): identity flow
eval_* parameter -> Parser::new -> field -> leaf node -> eval's leaf arm."""
from .. import spec, thir as T
from ..pat import M, parse as P, unify, subterms
from ..tables import show_tail, show_summary
from ..model import CUR
from .common import setup, report_issues, where

LEVEL = "proof"
PID = "C14"


def main(tier):
    run, F, models = setup(PID, tier, LEVEL)
    run.trusted = ["moves, copies, Clone of f64/i64/Decimal/Complex/Number and Option::unwrap_or* on Some(v) are identities on the value"]
    if F is None:
        return run.finish("identity flow", "./check C14 --tier %s" % tier)
    for ev, m in models.items():
        # hop 1: eval_* passes Some(placeholder) (and nothing else derived from it) to Parser::new
        fe = F.by_key["%s::%s" % (ev, ev)]
        ph = T.param_ids(fe)[1][1]
        te = m.tb.fn_term(fe)
        uses = [s for s in subterms(te) if s == ("param", ph)]
        calls = [s for s in subterms(te) if isinstance(s, tuple) and s and s[0] == "call" and s[1] == "P.new"]
        ok1 = len(uses) == 1 and len(calls) == 1 and len(calls[0]) == 4 and calls[0][3] == ("Some", ("param", ph))
        run.ob(ok1, "hop1|%s" % ev, "C14 the entry point hands Some(placeholder), unchanged, to Parser::new and uses it nowhere else", fe.key, T.show(te)[:300],
               sample={"evaluator": ev, "hop": "eval_* -> Parser::new(.., Some(placeholder))"})
        # hop 2: Parser::new stores it in a field through unwrap_or*/identity only
        fn = m.tb.fn("::parser::Parser::new")
        tn = m.tb.flat_term(fn)
        php = T.param_ids(fn)[1][1]
        fld = None
        for s in subterms(tn):
            if isinstance(s, tuple) and s and s[0] == "struct" and s[1] == "Parser::Parser":
                for kv in s[2:]:
                    v = kv[1]
                    if v == ("call", "Option::unwrap_or_default", ("param", php)) or (isinstance(v, tuple) and len(v) == 4 and v[:3] == ("call", "Option::unwrap_or", ("param", php))) or \
                            (isinstance(v, tuple) and len(v) == 4 and v[0] == "call" and v[1] in ("Option::unwrap_or_else",) and v[2] == ("param", php)):
                        fld = kv[0]
        nuses = len([s for s in subterms(tn) if s == ("param", php)])
        run.ob(fld is not None and nuses == 1, "hop2|%s" % ev, "C14 Parser::new stores the placeholder in a field through Option::unwrap_or* only", "%s (%s)" % (fn.key, fn.file),
               "field=%s uses of the parameter=%d" % (fld, nuses), sample={"evaluator": ev, "hop": "Parser::new -> field %s" % fld})
        # hop 3: the Ans arm builds the leaf from that field, consumes one token, no hook
        tv = m.tokvar("@")
        tvfull = "Token::%s" % tv
        arm = m.prim().get(tv) if tv else None
        ok3 = False
        leaf = None
        if arm is not None and fld is not None:
            evs_, tail = arm[1]
            e = M(("ctor", "?leaf", ("field", ("param", "self"), fld)), tail[1]) if tail[0] == "ok" else None
            ok3 = [x[0] for x in evs_] == ["next"] and evs_[0][-1] == "tried" and e is not None
            leaf = e["?leaf"] if e else None
        run.ob(ok3, "hop3|%s" % ev, "C14 `@` consumes one token and builds a leaf holding the stored placeholder, unchanged", where(m, "::parser::Parser::parse_number"),
               show_summary(arm[1])[:200] if arm else "no arm for @ (token %s)" % tv, sample={"evaluator": ev, "hop": "@ -> %s(self.%s)" % (leaf, fld)})
        # the leaf constructor is the one number literals use, and eval's leaf arm is the identity
        num = m.prim().get("Num")
        leaf2 = None
        if num is not None and num[1][1][0] == "tailcall" and num[1][1][1][0] == "impl":
            e = M(("ctor", "?leaf", ("var", "?b")), num[1][1][1][1])
            leaf2 = e["?leaf"] if e else None
        run.ob(leaf is not None and leaf == leaf2, "leaf-ctor|%s" % ev, "C14 `@` and number literals build the same kind of leaf", where(m, "::parser::Parser::parse_number"), "@ -> %s, literal -> %s" % (leaf, leaf2))
        arms = m.tb.eval_arms()
        la = arms.get(leaf.split("::")[1]) if leaf else None
        run.ob(la is not None and la["term"] == ("Ok", ("C0",)) and la["nbind"] == 1 and not la["guard"], "leaf-eval|%s" % ev, "C14 evaluating a leaf returns its payload unchanged",
               where(m, "::ast::eval"), T.show(la["term"])[:120] if la else "no arm", sample={"evaluator": ev, "leaf_arm": "Number(x) => Ok(x)"})
        # the field is never written after construction
        nwrites = 0
        for g in F.fns:
            if g.evaluator != ev or not g.thir or g.key.endswith("::new"):
                continue
            if "::parser::" not in g.key:
                continue
            t = m.tb.fn_term(g)
            for s in subterms(t):
                if isinstance(s, tuple) and s and s[0] in ("set", "setop"):
                    lhs = s[1] if s[0] == "set" else s[3]
                    if isinstance(lhs, tuple) and lhs[0] == "field" and lhs[-1] == fld:
                        nwrites += 1
                        run.ob(False, "field-write|%s|%s" % (ev, g.short), "C14 the stored placeholder is never modified", g.key, T.show(s)[:160])
        # ... and read exactly once: in the `@` arm (hop 3).  Any other read makes some construct depend on the
        # placeholder without `@` denoting it (a folded `-@`, a default for an empty argument, ...)
        reads = []
        ans_made = []
        for g in F.fns:
            if g.evaluator != ev or not g.thir or g.derived or g.key.endswith("parser::Parser::new"):
                continue
            t = m.tb.fn_term(g)
            compared = 0
            for s in subterms(t):
                if isinstance(s, tuple) and len(s) == 3 and s[0] == "field" and s[2] == fld and "::parser::" in g.key:
                    reads.append(g.short)
                if isinstance(s, tuple) and len(s) == 4 and s[0] == "call" and isinstance(s[1], str) and s[1].startswith("<Token as cmp::PartialEq>::"):
                    compared += [s[2], s[3]].count(("ctor", tvfull))  # a comparison does not produce a token
                if s == ("ctor", tvfull) and "tokenizer::" not in g.key:
                    ans_made.append(g.key)
            for _ in range(compared):
                if g.key in ans_made:
                    ans_made.remove(g.key)
        run.ob(len(reads) == 1, "field-read|%s" % ev, "C14 the stored placeholder is read exactly once, by the `@` arm", where(m, "::parser::Parser::parse_number"), "reads in %s" % reads,
               sample={"evaluator": ev, "reads_of_placeholder_field": reads})
        run.ob(not ans_made, "ans-token-source|%s" % ev, "C14 only the tokenizer's `@` rule produces the placeholder token", ev, "constructed in %s" % ans_made[:3])
        run.ob(True, "field-write-census|%s" % ev, "C14", ev, sample={"evaluator": ev, "writes_to_placeholder_field": nwrites})
        # behaves like a constant: category DefaultZero, not an implicit-product trigger (C12 shows the trigger set)
        from .c12 import implicit_trigger
        trig = implicit_trigger(m)
        run.ob(trig is not None and tv not in trig, "not-a-factor|%s" % ev, "C14 `@` never starts an implicit product (`2@`, `(1)@` are rejected, like the constants)", where(m, "::parser::Parser::implicit_multiply"),
               "trigger set %s" % (sorted(trig) if trig is not None else "UNRECOGNISED"), sample={"evaluator": ev, "implicit_product_triggers": sorted(trig) if trig else None})
        run.ob(m.tb.category_of(tv) == "DefaultZero", "category|%s" % ev, "C14 `@` has the loosest category (it never continues an expression)", where(m, "::token::Token::get_oper_prec"), str(m.tb.category_of(tv)))
    report_issues(run, models, tables={"T_prim", "T_lex", "T_eval"})
    run.floor("evaluators analysed", len(models), 5)
    return run.finish("three-hop identity flow of the placeholder + leaf identity + field-write census", "./check C14 --tier %s" % tier)
