"""C16 — evaluation is a pure function of (expression, placeholder).
Effect census (DESIGN §5 C16): no mutable / interior-mutable / thread-local static,
no interior mutability in any local of a reachable function, no unsafe, no
ambient-state callee, owned-in / owned-out entry points; thorough tier repeats the
census in all 31 feature configurations and over the dependency crates."""
import itertools, re
from .. import extract
from ..facts import Facts, EVALUATORS, callee_name
from ..report import Run

LEVEL = "proof"
PID = "C16"

AMBIENT = [
    r"^std::env::", r"^std::fs::", r"^std::io::", r"^std::net::", r"^std::process::", r"^std::time::",
    r"^std::thread::", r"^std::sync::(atomic|Mutex|RwLock|Once|OnceLock|LazyLock|mpsc|Condvar|Barrier|poison)",
    r"^core::sync::atomic", r"^std::cell::", r"^core::cell::", r"^std::collections::hash",
    r"^std::collections::(HashMap|HashSet)", r"^std::hash::RandomState", r"^std::hash::random", r"^rand(_core)?::", r"^std::ptr::",
    r"^core::ptr::", r"^std::mem::(transmute|zeroed|uninitialized|MaybeUninit)", r"^core::mem::(transmute|zeroed|MaybeUninit)",
    r"^std::alloc::", r"^std::os::", r"^std::ffi::", r"^std::backtrace::", r"^std::panic::(set_hook|take_hook|catch_unwind|update_hook)",
    r"^std::intrinsics::", r"^core::intrinsics::", r"^std::thread_local", r"LocalKey", r"^std::rc::Rc::<T>::(as_ptr|ptr_eq)",
    r"^std::sync::Arc::<T>::(as_ptr|ptr_eq|strong_count|weak_count)", r"fmt::rt::Argument::<'_>::new_pointer", r"^std::fmt::Pointer",
    r"^std::sync::(Mutex|RwLock|OnceLock|LazyLock)", r"^getrandom::", r"^std::random::",
]
AMBIENT_RE = [re.compile(p) for p in AMBIENT]


def ambient(name):
    for r in AMBIENT_RE:
        if r.search(name):
            return r.pattern
    return None


def walk_thir(e, fn):
    if isinstance(e, dict):
        fn(e)
        for v in e.values():
            walk_thir(v, fn)
    elif isinstance(e, list):
        for v in e:
            walk_thir(v, fn)


def census_crate(run, doc, cfgname, entry_reach_only=True, full=None):
    F = Facts(doc)
    crate = doc["crate"]
    tag = "%s[%s]" % (crate, cfgname)
    # 1. statics
    for s in doc["statics"]:
        ok = (not s["mutable"]) and s["freeze"] and not s["thread_local"]
        kind = "static mut" if s["mutable"] else ("thread_local static" if s["thread_local"] else ("interior-mutable static" if not s["freeze"] else "immutable static"))
        run.ob(ok, "static|%s|%s" % (crate, s["path"]), "C16-1 no mutable, interior-mutable or thread-local static",
               "%s:%s %s" % (s["file"], s["span"][0], s["path"]), "%s of type %s keeps state between calls" % (kind, s["ty"]),
               sample={"static": s["path"], "ty": s["ty"], "verdict": "immutable, Freeze"} if ok else None)
    run.ob(True, "statics-census|%s" % tag, "C16-1", tag,
           sample={"crate": crate, "config": cfgname, "statics_found": len(doc["statics"])})
    if full is None:
        full = crate == "string_calculator"
    if not full:
        return F
    # 3. unsafe / extern
    for m in doc["misc_items"]:
        run.ob(False, "unsafe-item|%s|%s" % (m["kind"], m["path"]), "C16-3 no unsafe fn / extern item", "%s %s" % (m["file"], m["path"]), m["kind"])
    for i in doc["impls"]:
        if i.get("safety") not in (None, "Safe"):
            if i.get("derived") and i["trait"].endswith("TrivialClone"):
                continue       # emitted by #[derive(Clone, Copy)]: a marker with no methods
            run.ob(False, "unsafe-impl|%s|%s" % (i["trait"], i["self_ty"]), "C16-3 no unsafe impl", i["file"], "unsafe impl %s for %s" % (i["trait"], i["self_ty"]))
    for a in doc["adts"]:
        run.ob(a["freeze"], "adt-freeze|%s" % a["path"], "C16-2 no interior mutability in crate types", "%s %s" % (a["file"], a["path"]),
               "type contains UnsafeCell (Cell/RefCell/Mutex/Atomic/Once...)")
        for v in a["variants"]:
            for fld in v["fields"]:
                if re.search(r"\*(const|mut) ", fld["ty"]):
                    run.ob(False, "rawptr-field|%s|%s" % (a["path"], fld["name"]), "C16-3 no raw pointer in crate types", a["path"], fld["ty"])
    reach = F.scope()
    nfn = 0
    ncalls = 0
    for f in F.fns:
        if f.path not in reach:
            continue
        nfn += 1
        # unsafe blocks written in the crate (macro expansions of std, e.g. format_args!, excluded)
        if f.thir:
            def chk(e, f=f):
                if e.get("k") == "block" and e.get("unsafe") and not e["sp"][4]:
                    run.ob(False, "unsafe-block|%s" % f.key, "C16-3 no unsafe block", "%s:%s in %s" % (f.file, e["sp"][0], f.key), "unsafe block")
                if e.get("k") in ("staticref", "tlsref"):
                    run.ob(False, "static-use|%s|%s" % (f.key, e.get("def")), "C16-1/4 no static is read or written", "%s:%s in %s" % (f.file, e["sp"][0], f.key), "uses static %s" % e.get("def"))
            walk_thir(f.thir, chk)
        if not f.mir:
            continue
        for li, l in enumerate(f.mir["locals"]):
            if not l["freeze"]:
                bare = re.sub(r"^&(mut )?", "", l["ty"])
                tparams = re.findall(r"(?<![\w:])([A-Z]\w*)(?![\w]|::)", bare)
                paths = re.findall(r"((?:\w+::)+\w+)", bare)
                transparent = all(re.match(r"^(std|core|alloc)::(option|result|vec|boxed|iter|slice|ops|cmp|marker|mem|array|collections::vec_deque|string|str)::", p_) for p_ in paths)
                if bare.startswith("impl ") or re.match(r"^[A-Z]\w*$", bare) or (tparams and transparent):
                    # (also: a std container that is Freeze whenever its parameters are -- Option<T>, (Option<T>, T), Vec<T>, Peekable<I> ...)
                    # a type parameter: Freeze is unknown for the parameter itself; every value it is instantiated
                    # with is a local of a caller inside the crate (no generic function is exported) and is checked there
                    continue
                run.ob(False, "interior-mut-local|%s|%s" % (f.key, l["ty"]), "C16-2 no interior mutability on a reachable path",
                       "%s in %s (local _%d%s)" % (f.file, f.key, li, " " + l["name"] if l["name"] else ""), "local of type %s contains UnsafeCell" % l["ty"])
        for b in f.mir["blocks"]:
            for s in b["stmts"]:
                if s["k"] == "assign" and s["rv"]["k"] == "cast":
                    rv = s["rv"]
                    if "ExposeProvenance" in rv["ck"] or (rv["ck"] == "Transmute" and re.match(r"^[iu](8|16|32|64|128|size)$", rv["to"])):
                        run.ob(False, "ptr-to-int|%s" % f.key, "C16-4 no address observed as a value", "%s:%s in %s" % (f.file, s["sp"][0], f.key), "%s %s -> %s" % (rv["ck"], rv["from"], rv["to"]))
                if s["k"] == "assign" and s["rv"]["k"] == "tlsref":
                    run.ob(False, "tls|%s" % f.key, "C16-1 no thread-local", f.key, s["rv"]["def"])
            t = b["term"]
            if t["k"] == "call" and t["func"].get("fn"):
                fnj = t["func"]["fn"]
                ncalls += 1
                for name in {fnj["def"], callee_name(fnj)}:
                    pat = ambient(name)
                    if pat:
                        run.ob(False, "ambient|%s|%s" % (f.key, name), "C16-4 no ambient-state callee (env, fs, io, time, thread, atomics, cells, hash randomness, addresses)",
                               "%s:%s in %s" % (f.file, t["sp"][0], f.key), "calls %s (matches %s)" % (name, pat))
                        break
    run.ob(True, "effect-census|%s" % tag, "C16-2/3/4", tag, sample={"config": cfgname, "reachable_fns": nfn, "resolved_calls_classified": ncalls, "ambient_callees": 0})
    # 5. entry points
    for ev in F.evaluators_present():
        f = F.by_key["%s::%s" % (ev, ev)]
        ins = f.j.get("inputs", [])
        out = f.j.get("output", "")
        bad = [t for t in ins + [out] if re.search(r"&|\*(const|mut)|Rc<|Arc<|Cell<|Mutex<|dyn Fn|fn\(", t)]
        ok = len(ins) == 2 and ins[0] == "std::string::String" and not bad and out.startswith("std::result::Result<")
        run.ob(ok, "entry-signature|%s" % ev, "C16-5 entry points take and return owned values", f.key, "inputs %s output %s" % (ins, out),
               sample={"entry": f.key, "inputs": ins, "output": out})
    return F


DEP_AMBIENT = [re.compile(x) for x in (r"^std::env::", r"^std::fs::", r"^std::io::", r"^std::net::", r"^std::process::", r"^std::time::", r"^std::thread::", r"^std::sync::", r"^core::sync::atomic",
                                         r"^std::cell::", r"^core::cell::", r"^std::collections::hash", r"RandomState", r"^rand(_core)?::", r"LocalKey", r"^getrandom::", r"^std::random::")]


def dep_ambient_census(run, doc):
    """Over-approximation for dependencies: *every* function body of the crate (not only the reachable ones)
    is scanned for ambient-state callees (unsafe pointer code as in arrayvec is not an ambient effect)."""
    crate = doc["crate"]
    nf = nc = 0
    for f in doc["fns"]:
        m = f.get("mir")
        if not m:
            continue
        nf += 1
        for b in m["blocks"]:
            t = b["term"]
            if t["k"] == "call" and t["func"].get("fn"):
                nc += 1
                nm = t["func"]["fn"]["def"]
                for r in DEP_AMBIENT:
                    if r.search(nm):
                        run.ob(False, "dep-ambient|%s|%s|%s" % (crate, f["path"][:80], nm), "C16-6 no ambient-state callee anywhere in a runtime dependency", "%s %s" % (f["file"], f["path"]), "calls %s" % nm)
                        break
    run.ob(True, "dep-ambient-census|%s" % crate, "C16-6", crate, sample={"dependency": crate, "function_bodies": nf, "resolved_calls": nc, "ambient_callees": 0})
    if crate in ("rust_decimal", "num_complex", "num_traits"):
        run.floor("bodies analysed in %s" % crate, nf, 100)


def feature_subsets():
    fs = extract.ALL_FEATURES
    out = []
    for n in range(1, len(fs) + 1):
        for c in itertools.combinations(fs, n):
            out.append(list(c))
    return out


def main(tier):
    run = Run(PID, tier, LEVEL)
    run.trusted = ["rustc type checker and MIR construction (nightly 1.97)", "Rust aliasing rules: safe code without statics or interior mutability cannot retain state",
                   "std / libm functions called are deterministic functions of their arguments",
                   "dependency crates: statics census + ambient-callee census over every function body with MIR (thorough tier); their unsafe code (arrayvec) is trusted not to leak addresses"]
    run.assumptions = ["allocator state and allocation failure are not observable through the API", "stack depth (see C01) is not a result"]
    try:
        doc = extract.load()
    except extract.ExtractError as e:
        run.fail_closed("fact extraction failed", str(e)[-1500:])
        return run.finish("effect census", "./check C16 --tier %s" % tier)
    from ..canary import effect_canary
    effect_canary(run)
    F = census_crate(run, doc, "default")
    from ..premises import trait_impls
    trait_impls(run, F, "C16")
    run.floor("entry points", len(F.evaluators_present()), 5)
    run.floor("reachable functions", len(F.reach()), 100)
    configs = 1
    if tier == "thorough":
        from concurrent.futures import ThreadPoolExecutor
        subs = feature_subsets()
        def one(fs):
            try:
                return fs, extract.load(features=fs), None
            except extract.ExtractError as e:
                return fs, None, str(e)
        with ThreadPoolExecutor(max_workers=8) as ex:
            res = list(ex.map(one, subs))
        for fs, d, err in res:
            if err:
                run.fail_closed("extraction failed for features %s" % fs, err[-800:])
                continue
            census_crate(run, d, "+".join(fs))
            configs += 1
        # dependency crates: static census
        try:
            ddir, info = extract.extract(deps=True)
            import subprocess
            tr = subprocess.run(["cargo", "tree", "-e", "normal", "--offline", "--prefix", "none"], cwd=extract.repo_dir(), stdout=subprocess.PIPE, stderr=subprocess.DEVNULL, text=True).stdout
            runtime = {l.split()[0].replace("-", "_") for l in tr.splitlines() if l.strip()} - {"string_calculator"}
            if not runtime:
                run.fail_closed("cargo tree returned no runtime dependencies")
            crates = [c for c in extract.list_crates(ddir) if c != "string_calculator" and c in runtime]
            run.coverage_extra["build_only_crates_skipped"] = [c for c in extract.list_crates(ddir) if c != "string_calculator" and c not in runtime]
            import json, os
            for c in crates:
                with open(os.path.join(ddir, c + ".facts.json")) as fh:
                    dd = json.load(fh)
                census_crate(run, dd, "deps")
                dep_ambient_census(run, dd)
            run.floor("dependency crates analysed", len(crates), 3)
            run.coverage_extra["dependency_crates"] = crates
        except extract.ExtractError as e:
            run.fail_closed("dependency extraction failed", str(e)[-800:])
    run.coverage_extra["configurations"] = configs
    return run.finish(
        "effect census over items, typed locals and resolved callees of every function reachable from the 5 entry points; an obligation is one (configuration, construct) pair; distinct = distinct constructs",
        "./check C16 --tier %s" % tier, exhaustive=(tier == "thorough"))
