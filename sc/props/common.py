"""Shared boilerplate for table-based property checks."""
from .. import extract
from ..facts import Facts, EVALUATORS
from ..model import Model
from ..report import Run


def setup(pid, tier, level, features=None, overflow=True):
    run = Run(pid, tier, level)
    import os
    if features is None and os.environ.get("SC_FEATURES"):
        features = sorted(os.environ["SC_FEATURES"].split(","))
    try:
        doc = extract.load(features=features, overflow=overflow)
    except extract.ExtractError as e:
        run.fail_closed("fact extraction failed (does the tree compile?)", str(e)[-1500:])
        return run, None, {}
    F = Facts(doc)
    models = {ev: Model(F, ev) for ev in F.evaluators_present()}
    canon_categories(F, models)
    run.coverage_extra["tree_hash"] = doc["_info"]["tree_hash"][:16]
    run.coverage_extra["config"] = doc["_info"]["config"]
    run.coverage_extra["evaluators"] = sorted(models)
    from ..premises import trait_impls, entry_chains, dep_features, token_stream, profile_const
    trait_impls(run, F, pid)
    profile_const(run, F, pid)
    entry_chains(run, models, pid)
    if pid not in ("C06", "C09", "C18"):
        token_stream(run, models, pid)
    if pid in ("C07", "C08", "C10", "C15"):
        dep_features(run, pid)
    return run, F, models


CAT_ANCHORS = {"+": "Additive", "*": "Multiplicative", "^": "Power", "!": "Functional", "|": "BitwiseOr", "&": "BitwiseAnd", "<<": "Shift"}


def canon_categories(F, models):
    """If the precedence-category enum or its variants were renamed, give them their canonical names: a category is
    identified by the tokens that belong to it (`+` -> Additive, `*` -> Multiplicative, `^` -> Power, `!` -> Functional,
    `|` `&` `<<` -> the bitwise levels, every other token -> DefaultZero; the one level left over is Negative)."""
    from ..tables import catinfo, CANON_CAT_PATH
    adt = catinfo(F)
    if adt is None:
        return
    names = [v["name"] for v in adt["variants"]]
    canon_names = {"DefaultZero", "BitwiseOr", "BitwiseAnd", "Shift", "Additive", "Multiplicative", "Power", "Negative", "Functional"}
    if adt["path"] == CANON_CAT_PATH and set(names) <= canon_names:
        return
    ren = {}
    for ev, m in models.items():
        pt = m.tb.prec_table_raw()
        if "_" in pt:
            ren.setdefault(pt["_"], "DefaultZero")
        for surf, canon in CAT_ANCHORS.items():
            try:
                tv = m.tokvar(surf)
            except Exception:
                tv = None
            if tv and tv in pt:
                if ren.get(pt[tv], canon) != canon:
                    return          # inconsistent: leave everything as written (the checks will report it)
                ren[pt[tv]] = canon
    left = [n for n in names if n not in ren]
    if len(left) == 1 and "Negative" not in ren.values():
        ren[left[0]] = "Negative"
    if len(set(ren.values())) != len(ren):
        return
    last = adt["path"].split("::")[-1]
    F.cat_variant_rename = ren
    F.cat_atom_rename = {"%s::%s" % (last, a): "OperatorCategory::%s" % b for a, b in ren.items()}
    F.cat_path_rename = (adt["path"], CANON_CAT_PATH) if adt["path"] != CANON_CAT_PATH else None
    for m in models.values():
        keep = {k: v for k, v in m.tb._cache.items() if k in ("roles", "rename", "roles_busy", "adt_names", "encl_fixed_cat")}
        m.tb._cache.clear()
        m.tb._cache.update(keep)
        m._sum.clear()
        m._prim = m._bin = None
        del m.tb.issues[:]


def report_issues(run, models, tables=None):
    """Unrecognised shapes in tables a property depends on -> UNRECOGNISED violations (property not shown)."""
    for ev, m in models.items():
        seen = set()
        for i in m.issues:
            if tables and i["table"] not in tables:
                continue
            k = (i["table"], i["where"], i["detail"][:80])
            if k in seen:
                continue
            seen.add(k)
            run.ob(False, "unrecognised|%s|%s|%s" % (ev, i["table"], i["where"]), "UNRECOGNISED shape in %s (property not shown)" % i["table"], i["where"], i["detail"][:400])


def where(m, fn):
    f = m.tb.fn(fn)
    return "%s (%s)" % (f.key, f.file) if f else "%s::%s" % (m.ev, fn)


def check_chain(run, m, kind, surf, clause, rule):
    """Compose surface -> token -> node -> eval arm and compare with the reference meaning."""
    from .. import chain, thir as T
    from ..pat import unify
    from ..spec_terms import TABLES
    ev = m.ev
    pats = TABLES.get(ev, {}).get((kind, surf))
    if pats is None:
        return None
    fn = {"bin": chain.binary_chain, "pre": chain.prefix_chain, "post": chain.postfix_chain, "fn": chain.function_chain}[kind]
    r, err = fn(m, surf)
    key = "meaning|%s|%s|%s" % (ev, kind, surf)
    if r is None:
        run.ob(False, key, rule, "%s %r" % (ev, surf), "chain broken: %s" % err)
        return False
    ctor, term = r
    ok = any(unify(p, term) is not None for p in pats)
    run.ob(ok, key, rule, "%s: %r -> Node::%s -> eval arm (%s)" % (ev, surf, ctor, where(m, "::ast::eval")),
           "computes %s ; expected %s" % (T.show(term)[:260], " | ".join(T.show(p)[:200] for p in pats[:2])),
           sample={"evaluator": ev, "surface": surf, "node": ctor, "term": T.show(term)[:200], "clause": clause} if len(run.samples) < 10 else None)
    return ok
