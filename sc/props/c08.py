"""C08 — eval_complex is complex-field arithmetic with i*i = -1 (DESIGN §5 C08): structural
necessary conditions (tokenizer table for `i` / imaginary literals / `pi`, routing of every
operator and function to num_complex).  Numerical tolerances are declined."""
from .. import spec, thir as T, chain
from ..pat import M, subterms
from ..spec_terms import TABLES, PI_BITS, E_BITS
from .common import setup, report_issues, where, check_chain
from ..scanners import check_literals, imaginary_suffix

LEVEL = "other"
PID = "C08"


def main(tier):
    run, F, models = setup(PID, tier, LEVEL)
    run.trusted = ["num_complex 0.4.6: Complex<f64> + - * / and unary - are the textbook component formulas; powc/sqrt/exp/ln/trig are the principal-branch definitions"]
    run.assumptions = ["declined: the 1e-12 / 1e-9 tolerances and branch-cut behaviour (numerical behaviour of num_complex / libm)"]
    if F is None or "eval_complex" not in models:
        if F is not None:
            run.fail_closed("eval_complex not present")
        return run.finish("routing", "./check C08 --tier %s" % tier, explanation="-")
    m = models["eval_complex"]
    w = where(m, "::tokenizer::Tokenizer")
    # imaginary unit, imaginary literals, pi before i
    r = m.lex.run("i)")
    unit = None
    if r.get("kind") == "scan":
        e = M(("Some", ("ctor", "Token::Num", ("call", "Complex::new", ("lit", "?re", "f64"), ("lit", "?im", "f64")))), r["term"])
        if e:
            unit = (float(e["?re"]), float(e["?im"]))
    elif r.get("kind") == "tok":
        e = M(("ctor", "Token::Num", ("call", "Complex::new", ("lit", "?re", "f64"), ("lit", "?im", "f64"))), r["token"])
        if e:
            unit = (float(e["?re"]), float(e["?im"]))
    run.ob(unit == (0.0, 1.0), "lex|unit", "C08 `i` is the imaginary unit Complex(0, 1)", w, "i -> %s" % (unit,), sample={"surface": "i", "value": "Complex::new(0.0, 1.0)"})
    tok, full, _ = m.lex_surface("pi")
    run.ob(tok == ("ctor", "Token::Pi") and full, "lex|pi", "C08 `pi` is the constant, decided before the bare `i` can be seen", w, T.show(tok) if tok else "none")
    imaginary_suffix(run, m, "C08")
    check_literals(run, m, "C08")
    # routing of operators and functions
    keys = sorted(TABLES["eval_complex"])
    for kind, s in keys:
        check_chain(run, m, kind, s, "C08", "C08 the operator/function is routed to the num_complex operation of its meaning, operands in written order")
    # constants and degree/radian factors
    for s, bits in (("pi", PI_BITS), ("π", PI_BITS), ("e", E_BITS)):
        r, err = chain.constant_chain(m, s)
        ok = r is not None and M(("call", "Complex::new", ("const", "_", bits), ("lit", "0.0", "f64")), r[1]) is not None
        run.ob(ok, "constant|%s" % s, "C08 constants are the real doubles pi / e", where(m, "::parser::Parser::parse_number"), T.show(r[1])[:120] if r else err)
    # the statement is about expressions: their value is that of the standard tree (C04's tables as a premise)
    from .c04 import precedence_tables
    precedence_tables(run, F, {"eval_complex": m}, PID)
    report_issues(run, {"eval_complex": m}, tables={"T_eval", "T_prim", "T_lex"})
    run.floor("obligations", run.obligations, 40)
    return run.finish("tokenizer table for i / imaginary literals / pi, chain check of every operator and function against num_complex routing", "./check C08 --tier %s" % tier,
                      explanation="Structural necessary conditions: `i` -> (0,1), `<num>i` -> (0,x), `pi` wins over `i`, every operator/function reaches the num_complex method of the same meaning with operands in order. The numerical tolerances of the statement are not decided (trusted num_complex/libm).")
