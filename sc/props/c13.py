"""C13 — equivalent spellings evaluate identically (DESIGN §5 C13): whitespace stripping dataflow,
alias classes map to one token, alternative notations build the same node."""
from .. import spec, thir as T
from ..pat import M, parse as P, unify, subterms
from ..tables import show_tail, show_summary
from ..model import ctor_name
from .common import setup, report_issues, where

LEVEL = "proof"
PID = "C13"



def utils_fn(F, name):
    """a helper of the shared utils module, wherever in it it lives (found by name: moving it between files is not a change)"""
    c = [g for k, g in F.by_key.items() if g.evaluator is None and g.kind != "Closure" and k.split("::")[-1] == name and k.startswith("utils::")]
    return c[0] if len(c) == 1 else None

def node_ctor_of_function(m, name):
    arms, after = m.prim_functions()
    tv = m.tokvar(name)
    if not (isinstance(tv, tuple) and tv[0] == "ExplicitFunction"):
        return None
    arm = arms.get(tv[1])
    if arm is None:
        return None
    evs_, tail = arm
    if tail[0] != "val" or not (isinstance(tail[1], tuple) and tail[1][0] == "ctor"):
        return None
    node = tail[1]
    idx = []
    for a in node[2:]:
        e = M(("call", "<Vec<Node> as ops::Index>::index", ("R1",), ("lit", "?k", "usize")), a)
        idx.append(int(e["?k"]) if e else None)
    return node[1], idx, evs_


def main(tier):
    run, F, models = setup(PID, tier, LEVEL)
    run.trusted = ["std: str::split_whitespace splits exactly on the 25 Unicode White_Space code points; collect::<String> concatenates the pieces"]
    if F is None:
        return run.finish("dataflow + relational table checks", "./check C13 --tier %s" % tier)
    for ev, m in models.items():
        # whitespace
        okws, why = m.entry_chain()
        run.ob(okws, "whitespace|%s" % ev, "C13 the parser sees only the whitespace-stripped input (split_whitespace().collect(), or the characters that are not char::is_whitespace); the original string has no other use",
               "%s::%s" % (ev, ev), why, sample={"evaluator": ev, "dataflow": "expr -> strip whitespace -> Parser::new (only use)"})
        # aliases
        for cls in spec.ALIAS_CLASSES:
            offered = [s for s in cls if s in spec.surfaces_for(ev)]
            if len(offered) < 2:
                continue
            toks = {s: m.token_of(s) for s in offered}
            vals = list(toks.values())
            run.ob(all(v is not None and v == vals[0] for v in vals), "alias|%s|%s" % (ev, "/".join(cls)), "C13 synonyms are tokenised to the same token (whole name consumed)",
                   where(m, "::tokenizer::Tokenizer"), "; ".join("%s -> %s" % (s, T.show(t) if t else None) for s, t in toks.items()),
                   sample={"evaluator": ev, "aliases": offered, "token": T.show(vals[0]) if vals[0] else None})
        # every offered keyword is consumed completely (no keyword shadows another)
        for s in sorted(spec.surfaces_for(ev)):
            tok, full, r = m.lex_surface(s)
            run.ob(tok is not None and full, "keyword|%s|%s" % (ev, s), "C13 each keyword is recognised as a whole, independently of the order of the tests", where(m, "::tokenizer::Tokenizer"),
                   "%r -> %s consumed=%s" % (s, r.get("kind"), r.get("consumed")))
        pr, bn = m.prim(), m.bin()
        # notations: brackets vs floor()/ceil()
        for opn, fname in (("⌊", "floor("), ("⌈", "ceil(")):
            if ev not in spec.SINGLE_CHAR_TOKENS[opn]:
                continue
            arm = pr.get(m.tokvar(opn))
            w = None
            if arm is not None and arm[1][1][0] == "tailcall" and arm[1][1][1][0] == "encl":
                e = M("(lambda ((bind ?x)) (ctor ?n (var ?x)))", arm[1][1][1][3])
                w = e["?n"] if e else None
                inner = arm[1][1][1][1]
            fc = node_ctor_of_function(m, fname)
            run.ob(w is not None and fc is not None and fc[0] == w and fc[1] == [0] and inner == "DefaultZero", "notation|%s|%s" % (ev, opn),
                   "C13 the bracket notation and the named function build the same node over an operand parsed at the loosest level", where(m, "::parser::Parser::parse_number"),
                   "%s.. builds %s, %s builds %s" % (opn, w, fname, fc[:2] if fc else None), sample={"evaluator": ev, "notation": opn, "node": w})
        # mod( vs %, pow( vs ^
        for fname, op in (("mod(", "%"), ("pow(", "^")):
            if fname not in spec.surfaces_for(ev):
                continue
            fc = node_ctor_of_function(m, fname)
            arm = bn.get(m.tokvar(op))
            oc = None
            if arm is not None and arm[1][1][0] == "ok":
                e = M(("ctor", "?n", ("param", "?l"), ("R1",)), arm[1][1][1])
                oc = e["?n"] if e else None
            run.ob(fc is not None and oc is not None and fc[0] == oc and fc[1] == [0, 1], "notation|%s|%s" % (ev, fname),
                   "C13 the function form and the operator build the same node with (first, second) = (left, right)", where(m, "::parser::Parser::parse_number"),
                   "%s builds %s, %r builds %s" % (fname, fc[:2] if fc else None, op, oc), sample={"evaluator": ev, "notation": fname + " vs " + op, "node": oc})
        # superscript: Pow(left, leaf(script)) with the ctor of ^ and the leaf of literals; same converter as a digit literal
        sup = bn.get("Superscript")
        car = bn.get(m.tokvar("^"))
        num = pr.get("Num")
        ok_s = False
        detail = ""
        if sup and car and num and sup[1][1][0] == "ok" and car[1][1][0] == "ok" and num[1][1][0] == "tailcall":
            es = M(("ctor", "?n", ("param", "?l"), ("ctor", "?leaf", ("var", "?b"))), sup[1][1][1])
            ec = M(("ctor", "?n", ("param", "?l"), ("R1",)), car[1][1][1])
            en = M(("ctor", "?leaf", ("var", "?b")), num[1][1][1][1])
            ok_s = bool(es and ec and en and es["?n"] == ec["?n"] and es["?leaf"] == en["?leaf"])
            detail = "superscript builds %s, ^ builds %s, literal leaf %s" % (T.show(sup[1][1][1])[:100], ec["?n"] if ec else None, en["?leaf"] if en else None)
        run.ob(ok_s, "notation|%s|superscript" % ev, "C13 a superscript run builds pow(left, literal) exactly as ^N does", where(m, "::parser::Parser::convert_token_to_node"), detail)
        # converter agreement: payload of Superscript token and of the digit literal token use the same conversion function
        conv = {}
        for probe, key in (("²", "super"), ("2", "digit")):
            r = m.lex.run(probe + ")")
            names = set()
            if r.get("kind") == "scan":
                for s in subterms(r["term"]):
                    if isinstance(s, tuple) and len(s) > 1 and s[0] == "call" and isinstance(s[1], str) and (s[1].startswith("str::parse") or s[1].startswith("Lex.") or "FromStr" in s[1]):
                        names.add(s[1])
            conv[key] = names
        shared = conv["super"] & conv["digit"]
        run.ob(bool(shared) and conv["super"] <= conv["digit"], "converter|%s" % ev, "C13 superscript digits are converted by the same function as digit literals of this evaluator",
               where(m, "::tokenizer::Tokenizer"), "superscript uses %s, digit literal uses %s" % (sorted(conv["super"]), sorted(conv["digit"])), sample={"evaluator": ev, "converter": sorted(shared)})
        run.ob(m.tb.category_of("Superscript") == m.tb.category_of(m.tokvar("^")), "super-category|%s" % ev, "C13 superscripts have the category of ^", where(m, "::token::Token::get_oper_prec"), "")
        # prefix + and redundant brackets
        plus = pr.get(m.tokvar("+"))
        minus = pr.get(m.tokvar("-"))
        lvl_p = [e_[1] for e_ in plus[1][0] if e_[0] == "ast"] if plus else None
        lvl_m = [e_[1] for e_ in minus[1][0] if e_[0] == "ast"] if minus else None
        run.ob(plus is not None and [e_[0] for e_ in plus[1][0]] == ["next", "ast"] and lvl_p == ["Negative"] and lvl_p == lvl_m, "prefix-plus-level|%s" % ev,
               "C13 the operand of a prefix + is parsed at the prefix level (it absorbs exactly what a prefix - absorbs), so the + is redundant in every context", where(m, "::parser::Parser::parse_number"), "levels: + %s, - %s" % (lvl_p, lvl_m))
        run.ob(plus is not None and plus[1][1] == ("ok", ("R1",)), "prefix-plus|%s" % ev, "C13 a prefix + returns its operand unchanged", where(m, "::parser::Parser::parse_number"), show_tail(plus[1][1])[:120] if plus else "")
        opn = pr.get(m.tokvar("("))
        okp = opn is not None and opn[1][1][0] == "tailcall" and opn[1][1][1][0] == "encl" and M("(lambda ((bind ?x)) (var ?x))", opn[1][1][1][3]) is not None and opn[1][1][1][1] == "DefaultZero"
        run.ob(okp, "paren-identity|%s" % ev, "C13 a redundant pair of round brackets contributes nothing but its content", where(m, "::parser::Parser::parse_number"), "")
    superscript_checks(run, F, models, "C13")
    for ev, m in models.items():
        bodies = set()
        for c_ in spec.SUPERSCRIPTS:
            k_, i_ = m.lex.arm_for(c_)
            r_ = m.lex.run(c_ + ")")
            run.ob(k_ == "arm" and r_.get("kind") == "scan", "superscript-start|%s|%s" % (ev, c_), "C13 every superscript digit can start (and continue) a superscript run", where(m, "::tokenizer::Tokenizer"), "%r -> %s" % (c_, r_.get("kind")), distinct="superscript-start|%s" % ev)
            if k_ == "arm":
                bodies.add(T.show(m.lex.arms[i_][1]))
        run.ob(len(bodies) == 1, "superscript-arms|%s" % ev, "C13 the ten superscript digits are scanned by identical code", where(m, "::tokenizer::Tokenizer"), "%d distinct arm bodies" % len(bodies))
    report_issues(run, models, tables={"T_prim", "T_lex", "T_loop"})
    run.floor("evaluators analysed", len(models), 5)
    run.floor("obligations", run.obligations, 200)
    return run.finish("whitespace dataflow; alias classes; whole-keyword recognition for every surface; notation pairs build equal nodes; superscript relational checks", "./check C13 --tier %s" % tier)


def superscript_checks(run, F, models, tag):
    # the shared superscript scanner maps each superscript digit to its digit
    f = utils_fn(F, "superscript_digit_to_digit")
    if f is None:
        run.ob(False, "anchor|superscript_digit_to_digit", "%s " % tag + "anchor", "utils", "superscript_digit_to_digit not found")
    else:
        m0 = list(models.values())[0]
        t = m0.tb.fn_term(f, inline_pure=True)
        got = {}
        if isinstance(t, tuple) and t[0] == "match":
            for arm in t[2:]:
                e = M(("char", "?c"), arm[0])
                v = M(("Some", ("char", "?d")), arm[-1])
                if e and v:
                    got[e["?c"]] = v["?d"]
        want = dict(zip(spec.SUPERSCRIPTS, "0123456789"))
        run.ob(got == want, "superscript-map", "%s each superscript digit denotes its digit" % tag, f.key, "map %s" % got, sample={"superscript_map": got})
    # the shared superscript scanner collects the whole run of superscript digits, mapped digit by digit
    f = utils_fn(F, "deserialize_superscript_number")
    if f is None:
        run.ob(False, "anchor|deserialize_superscript_number", "%s " % tag + "anchor", "utils", "deserialize_superscript_number not found")
    else:
        m0 = list(models.values())[0]
        t = m0.tb.fn_term(f, inline_pure=True)
        DIG = "utils.superscript_digit_to_digit"
        pat = ("seq", ("let", "?s", ("call", "Option::unwrap_or_default", ("mapopt", ("call", DIG, ("param", "?c")), ("bind", "?d"), ("call", "<char as std::string::ToString>::to_string", ("var", "?d"))))),
               ("loop", ("if", ("iflet", ("pvar", "Option::Some", ("bind", "?p")), ("call", "Chars.peek", ("param", "?e"))),
                         ("if", ("iflet", ("pvar", "Option::Some", ("bind", "?q")), ("call", DIG, ("var", "?p"))), ("seq", ("call", "Chars.next", ("param", "?e")), ("call", "String::push", ("var", "?s"), ("var", "?q"))), ("break",)), ("break",))),
               ("var", "?s"))
        ok = M(pat, t) is not None
        run.ob(ok, "superscript-run", "%s a superscript run is scanned completely: first digit, then every following superscript digit, each mapped to its digit" % tag, f.key, "" if ok else "UNRECOGNISED: " + T.show(t)[:400])
