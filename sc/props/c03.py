"""C03 — Ok implies the entire input was one well-formed expression (DESIGN §5 C03).
 a  Eof gate in parse()                      b  error discipline (every Result is ?-propagated or returned)
 c  bracket / arity / comma tables           d  vocabulary = availability matrix, both directions"""
import re
from .. import spec, thir as T
from ..pat import M, parse as P, unify, subterms
from ..tables import show_tail, summarise
from ..model import ctor_name, CUR
from .common import setup, report_issues, where

LEVEL = "proof"
PID = "C03"
NEXT_TOK = P("(call \"<Tokenizer<'_> as iter::Iterator>::next\" ?it)")


def discipline(t, report, tail=True, parent=None):
    """Every (call P.x ..) / (call Ast.eval ..) must be the operand of `try` or the tail value of the function."""
    if not isinstance(t, tuple) or not t:
        return
    h = t[0]
    if h == "call" and isinstance(t[1], str) and (t[1].startswith("P.") or t[1] in ("Ast.eval",)) and t[1] not in ("P.new",) or (h == "call" and t[1] == "P.new"):
        if not (parent == "try" or tail):
            report(t)
        for x in t[2:]:
            discipline(x, report, False, "call")
        return
    if h == "seq":
        for i, x in enumerate(t[1:]):
            discipline(x, report, tail and i == len(t) - 2, "seq")
        return
    if h == "if":
        discipline(t[1], report, False, "cond")
        for x in t[2:]:
            discipline(x, report, tail, "if")
        return
    if h == "match":
        discipline(t[1], report, False, "scrut")
        for a in t[2:]:
            discipline(a[-1], report, tail, "match")
        return
    if h == "return":
        discipline(t[1], report, True, "return")
        return
    if h == "try":
        discipline(t[1], report, False, "try")
        return
    if h in ("Ok",) and False:
        return
    for x in t[1:]:
        discipline(x, report, False, h)


def main(tier):
    run, F, models = setup(PID, tier, LEVEL)
    run.trusted = ["recursive-descent schema: with the tables shown, a parse that returns Ok has consumed a derivation of the grammar",
                   "std: Peekable<Chars> yields each character of the stripped input exactly once"]
    run.assumptions = ["the converse (every well-formed expression with defined operations evaluates to Ok) is shown per production only (tables reject only on the documented conditions)"]
    if F is None:
        return run.finish("table comparison", "./check C03 --tier %s" % tier)
    for ev, m in models.items():
        # a. Eof gate
        ok, detail = m.eof_gate()
        ok2, detail2 = m.mir_eof_gate()
        if not ok and ok2:
            run.note("%s: Eof gate not in one of the enumerated source forms (%s) but established by the path rule on MIR" % (ev, detail[:120]))
        detail = "source form: %s | MIR path rule: %s" % (detail, detail2)
        ok = ok or ok2
        run.ob(ok, "eof-gate|%s" % ev, "C03-a parse() returns Ok only when the current token is Eof", where(m, "::parser::Parser::parse"), detail,
               sample={"evaluator": ev, "eof_gate": detail})
        # b. error discipline
        nsites = [0]
        has_var0 = any(a == "var" and ev in evs for (a, evs) in spec.FUNCTIONS.values())
        for fname in ("parse", "generate_ast", "parse_number", "convert_token_to_node", "get_next_token", "new"):
            if m.tb.fn("::parser::Parser::" + fname) is None:
                run.ob(False, "anchor|%s|%s" % (ev, fname), "C03 anchor function present", ev, "parser function %s not found" % fname)
        pfs = [g_ for g_ in F.fns if g_.evaluator == ev and re.search(r"::parser::Parser::\w+$", g_.key) and g_.kind != "Closure" and g_.thir and not g_.derived]
        for f in pfs:
            fname = f.key.split("::")[-1]
            t = m.tb.parser_term(f)
            for s in subterms(t):
                if isinstance(s, tuple) and s and s[0] == "call" and isinstance(s[1], str) and s[1].startswith("P."):
                    nsites[0] += 1

            def rep(c, fname=fname, f=f):
                run.ob(False, "discipline|%s|%s|%s" % (ev, fname, c[1]), "C03-b every Result of a parser call is ?-propagated or returned",
                       "%s (%s)" % (f.key, f.file), "result of %s is neither `?`-propagated nor returned (dropped / inspected)" % c[1])
            discipline(t, rep)
            for s in subterms(t):
                if isinstance(s, tuple) and s and s[0] == "letpat" and s[1] == "_":
                    run.ob(False, "discipline|%s|%s|let_" % (ev, fname), "C03-b no result is discarded with `let _ =`", f.key, T.show(s)[:160])
        run.ob(True, "discipline|%s" % ev, "C03-b", ev, sample={"evaluator": ev, "parser_call_sites_checked": nsites[0]})
        run.distinct.add("discipline-sites|%s|%d" % (ev, nsites[0]))
        # the entry chain itself is the shared premise `entry-chain` (common.setup)
        # lexer None -> Err in new / get_next_token
        for fname in ("new", "get_next_token"):
            f = m.tb.fn("::parser::Parser::" + fname)
            t = m.tb.parser_term(f)
            hit = False
            for s in subterms(t):
                e = M(("match", NEXT_TOK, (("pvar", "Option::Some", ("bind", "?b")), ("var", "?b")), (("pvar", "Option::None"), ("return", ("Err",)))), s)
                if e is None:
                    e = M(("try", ("lift", NEXT_TOK)), s)
                if e is not None:
                    hit = True
            run.ob(hit, "lex-none-err|%s|%s" % (ev, fname), "C03-a an unrecognised character (tokenizer None) becomes Err", "%s (%s)" % (f.key, f.file),
                   "no `match tokenizer.next() { Some(t) => t, None => return Err }`")
        # get_next_token / Parser::new / Tokenizer::new shapes: shared premise `token_stream` (common.setup)
        # c. check_paren / function_static_arguments / find_item_list shapes
        okc, why = m.check_paren_shape()
        run.ob(bool(okc), "check-paren|%s" % ev, "C03-c check_paren: equal to the expected token -> consume it, otherwise Err", where(m, "::parser::Parser::check_paren"), why)
        okf, why = m.fsa_shape()
        run.ob(okf, "fsa-shape|%s" % ev, "C03-c fixed-arity argument list: name, '(', n expressions separated by n-1 commas, ')'; exactly one push per argument",
               where(m, "::parser::Parser::function_static_arguments"), why, sample={"evaluator": ev, "function_static_arguments": "( e1 , ... , en ) with n pushes: " + why[:60]})
        has_var = any(a == "var" and ev in evs for (a, evs) in spec.FUNCTIONS.values())
        fil = m.tb.fn("::parser::Parser::find_item_list")
        if fil is None and not has_var:
            t = None
        else:
            t = m.tb.fn_term(fil) if fil else ("missing",)
        okl = False
        if fil is not None:
            okl, _why = m.list_shape()      # (model.py: the loop with the first-iteration guard, or the empty list decided before the loop)
            t = m.tb.parser_term(fil)
        if t is not None:
          run.ob(okl, "list-shape|%s" % ev, "C03-c variadic argument list: name, '(', [ e { ',' e } ] , ')'; anything else is Err", where(m, "::parser::Parser::find_item_list"), T.show(t)[:400])
        fa = m.tb.fn("::parser::Parser::function_arguments")
        t = m.tb.fn_term(fa) if fa else ("missing",)
        if fa is not None or has_var:
          run.ob(t == ("call", "P.find_item_list", ("param", "self"), ("ctor", "Token::LeftParen"), ("ctor", "Token::RightParen"), ("ctor", "OperatorCategory::DefaultZero")),
               "fargs-shape|%s" % ev, "C03-c variadic functions use ( ) and restart at the loosest level", where(m, "::parser::Parser::function_arguments"), T.show(t)[:200])
        # c. arity per function name
        arms, after = m.prim_functions()
        okafter = after is not None and after[0] == "tailcall" and after[1][0] == "impl" and after[1][1] == ("R1",)
        run.ob(okafter, "fn-after|%s" % ev, "C03-c a function call is a complete primary (followed only by the implicit-product hook)", where(m, "::parser::Parser::parse_number"), show_tail(after)[:160] if after else "none")
        for name, (arity, evs) in sorted(spec.FUNCTIONS.items()):
            tv = m.tokvar(name)
            if ev not in evs:
                continue
            if not (isinstance(tv, tuple) and tv[0] == "ExplicitFunction"):
                run.ob(False, "vocab-missing|%s|%s" % (ev, name), "C03-d documented name is offered", where(m, "::tokenizer::Tokenizer"), "%r is not tokenised as a function of %s" % (name, ev))
                continue
            arm = arms.get(tv[1])
            if arm is None:
                run.ob(False, "fn-arm|%s|%s" % (ev, name), "C03-c function has a parser arm", where(m, "::parser::Parser::parse_number"), "no arm for NativeFunction::%s" % tv[1])
                continue
            evs_, tail = arm
            if arity == "var":
                okv = len(evs_) == 1 and evs_[0][:1] == ("fargs",) and evs_[0][-1] == "tried"
                isavg = name == "avg("
                okt = False
                if okv and tail[0] == "if" and tail[1] == ("call", "Vec::is_empty", ("R1",)):
                    a, b = tail[2], tail[3]
                    a_err = (not a[0]) and a[1][0] == "ret" and a[1][1][0] == "err"
                    a_zero = (not a[0]) and a[1][0] == "val" and M("(ctor ?leaf ?z)", a[1][1]) is not None
                    b_node = (not b[0]) and b[1][0] == "val" and M(("ctor", "?n", ("R1",)), b[1][1]) is not None
                    okt = b_node and (a_zero if isavg else a_err)
                run.ob(okv and okt, "arity|%s|%s" % (ev, name), "C03-c variadic aggregate: any number of arguments; empty list is Err (avg(): the constant 0)",
                       where(m, "::parser::Parser::parse_number"), "%s: effects %s then %s" % (name, [x[:2] for x in evs_], show_tail(tail)[:200]),
                       sample={"evaluator": ev, "function": name, "arity": "variadic", "empty": "0" if isavg else "Err"})
            else:
                okv = len(evs_) == 1 and evs_[0][:2] == ("fsa", arity) and evs_[0][-1] == "tried"
                idx = []
                node = tail[1] if tail[0] == "val" else None
                if node is not None:
                    for s in subterms(node):
                        e2 = M(("call", "<Vec<Node> as ops::Index>::index", ("R1",), ("lit", "?k", "usize")), s)
                        if e2 is not None:
                            idx.append(int(e2["?k"]))
                okn = node is not None and node[0] == "ctor" and len(node) == 2 + arity and idx == list(range(arity))
                run.ob(okv and okn, "arity|%s|%s" % (ev, name), "C03-c function takes exactly its documented number of arguments and uses each once, in order",
                       where(m, "::parser::Parser::parse_number"), "%s: effects %s, argument uses %s, node %s" % (name, [x[:2] for x in evs_], idx, T.show(node)[:120]),
                       sample={"evaluator": ev, "function": name, "arity": arity})
        # d. vocabulary, both directions
        offered = spec.surfaces_for(ev)
        for s in sorted(spec.all_surfaces()):
            tok, full, r = m.lex_surface(s)
            if s in offered:
                run.ob(tok is not None and full, "vocab-missing|%s|%s" % (ev, s), "C03-d every documented operator/name/constant of this evaluator is one token", where(m, "::tokenizer::Tokenizer"),
                       "%r: lexer model gives %s" % (s, r.get("kind")))
            else:
                acc = tok is not None and full
                run.ob(not acc, "vocab-extra|%s|%s" % (ev, s), "C03-d a name/operator this evaluator does not offer is rejected", where(m, "::tokenizer::Tokenizer"),
                       "%r is accepted as token %s although %s does not offer it" % (s, T.show(tok) if tok else None, ev))
        for s in spec.FOREIGN_PROBES:
            tok, full, r = m.lex_surface(s)
            if ev == "eval_complex" and s in ("inf",):
                continue
            acc = tok is not None and full
            run.ob(not acc, "vocab-foreign|%s|%s" % (ev, s), "C03-d foreign names and characters are rejected", where(m, "::tokenizer::Tokenizer"), "%r accepted as %s" % (s, T.show(tok) if tok else None))
        # superscript digits: each of the ten starts the same scanner; nothing else is a superscript digit
        bodies = []
        for c_ in spec.SUPERSCRIPTS:
            k_, i_ = m.lex.arm_for(c_)
            r_ = m.lex.run(c_ + ")")
            run.ob(k_ == "arm" and r_.get("kind") == "scan", "vocab-missing|%s|%s" % (ev, c_), "C03-d every superscript digit starts a superscript exponent", where(m, "::tokenizer::Tokenizer"), "%r -> %s" % (c_, r_.get("kind")), distinct="superscript-start|%s" % ev)
            if k_ == "arm":
                bodies.append(T.show(m.lex.arms[i_][1]))
        run.ob(len(set(bodies)) == 1 and len(bodies) == 10, "superscript-arms|%s" % ev, "C03-d the ten superscript digits are scanned by identical code", where(m, "::tokenizer::Tokenizer"), "%d distinct arm bodies over %d digits" % (len(set(bodies)), len(bodies)))
        for c_ in "ⁱ⁺⁻ⁿ\u2072\u2073₀₁ª":
            r_ = m.lex.run(c_ + ")")
            run.ob(r_.get("kind") == "none", "vocab-foreign|%s|%s" % (ev, c_), "C03-d other superscript/subscript code points are rejected", where(m, "::tokenizer::Tokenizer"), "%r -> %s" % (c_, r_.get("kind")), distinct="superscript-foreign|%s" % ev)
        # the catch-all arms
        la = m.lex.arm_for("~")
        okcatch = la[0] == "arm" and M("(None)", m.lex.arms[la[1]][1]) is not None
        run.ob(okcatch, "lex-catchall|%s" % ev, "C03-d any other character is rejected (tokenizer returns None)", where(m, "::tokenizer::Tokenizer"), str(la))
        pr, bn = m.prim(), m.bin()
        for tbl, nm in ((pr, "parse_number"), (bn, "convert_token_to_node")):
            d = tbl.get("_")
            okd = d is not None and (not d[1][0]) and d[1][1][0] == "err"
            run.ob(okd, "default-err|%s|%s" % (ev, nm), "C03-c a token that cannot start/continue an expression is Err", where(m, "::parser::Parser::" + nm), "default arm: %s" % (show_tail(d[1][1])[:100] if d else None))
        # closers / comma / Eof are not primaries and not operators
        for s in (")", ",", "⌋", "⌉"):
            tv = m.tokvar(s)
            if tv is None:
                continue
            run.ob(tv not in pr and tv not in bn, "closer|%s|%s" % (ev, s), "C03-c closing brackets and commas are accepted only where a list/bracket expects them", where(m, "::parser::Parser::parse_number"), "Token::%s has a primary/operator arm" % tv)
        run.ob("Eof" not in pr and "Eof" not in bn, "closer|%s|Eof" % ev, "C03-c end of input is neither an operand nor an operator", where(m, "::parser::Parser::parse_number"), "Eof has an arm")
    from .c13 import superscript_checks
    superscript_checks(run, F, models, "C03-d")
    report_issues(run, models, tables={"T_prim", "T_loop", "T_lex"})
    run.floor("evaluators analysed", len(models), 5)
    run.floor("obligations", run.obligations, 500)
    return run.finish("Eof gate, error discipline of every parser call site, argument-list shapes, arity per documented function, vocabulary in both directions (interpreting the extracted lexer model on every surface symbol and on foreign probes)",
                      "./check C03 --tier %s" % tier)
