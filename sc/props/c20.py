"""C20 — compositionality (DESIGN §5 C20): by structural induction over the context, given
 (1) eval uses its children only through recursive eval calls, (2) leaf and bracket are identities,
 (3) parser tables depend on the current token only, (4) determinism (C16)."""
import re
from .. import spec, thir as T
from ..pat import M, parse as P, unify, subterms
from ..tables import show_tail, show_summary
from .common import setup, report_issues, where

LEVEL = "proof"
PID = "C20"


def child_uses(t, sym, path=()):
    """yield the ancestor chain for every occurrence of symbol sym (e.g. ('C0',)) in t"""
    if t == sym:
        yield path
        return
    if isinstance(t, tuple):
        for i, x in enumerate(t):
            for r in child_uses(x, sym, path + ((t, i),)):
                yield r


def var_uses(t, name, path=()):
    if t == ("var", name):
        yield path
        return
    if isinstance(t, tuple):
        for i, x in enumerate(t):
            for r in var_uses(x, name, path + ((t, i),)):
                yield r


def vec_child_ok(arm_term, sym):
    """Uses of an Arc<Vec<Node>> child: len / is_empty / first / into_iter (for) / iter, and the
    elements obtained from it are used only as `(ev elem)`."""
    bad = []
    n = 0
    for path in child_uses(arm_term, sym):
        n += 1
        parent, idx = path[-1]
        if parent[0] == "call" and parent[1] in ("Vec::len", "Vec::is_empty") and idx == 2:
            continue
        if parent[0] == "call" and parent[1] in ("[T]::first", "[T]::last", "iter", "[T]::get") and idx == 2:
            gp, gidx = path[-2] if len(path) > 1 else (None, None)
            names = []
            body = None
            if gp is not None and gp[0] == "for" and gidx == 2:
                e = M(("bind", "?b"), gp[1])
                if e:
                    names, body = [e["?b"]], gp[3]
            elif gp is not None and gp[0] == "match" and gidx == 1:
                body = gp
                for arm in gp[2:]:
                    for s in subterms(arm[0]):
                        e = M(("bind", "?b"), s)
                        if e:
                            names.append(e["?b"])
            else:
                bad.append("element source used in %s" % T.show(gp)[:120])
                continue
            for nm in names:
                for p2 in var_uses(body, nm):
                    pp, ii = p2[-1]
                    if not (pp[0] == "ev" and ii == 1):
                        bad.append("element %s used outside eval(): %s" % (nm, T.show(pp)[:120]))
            continue
        bad.append("child list used in %s" % T.show(parent)[:120])
    return bad, n


def tree_walk(run, m, ev, arms, ftypes, tag="C20"):
    """eval is a structural recursion: no arm looks inside a child, a Node is used only by handing it to the recursive
    evaluation (typed rule, sc/treewalk.py).  Returns the number of Node-typed uses inspected."""
    from ..treewalk import analyse
    for ctor, a in sorted(arms.items()):
        pat = a["pat"]
        nested = any(not (s == "_" or (isinstance(s, tuple) and s[0] == "bind")) for s in pat[2:]) if isinstance(pat, tuple) and pat[0] == "pvar" else True
        run.ob(not nested and not a["guard"], "no-peek|%s|%s" % (ev, ctor), tag + " the arm pattern does not look inside a child (no nested pattern, no guard)", "%s arm %s" % (where(m, "::ast::eval"), ctor), T.show(pat)[:160])
    m.tb.eval_fn()
    walkers = set(m.tb._cache.get("walker_names", ()))
    viol, nuses, nfns = analyse(m.F, ev, walkers, None)
    seen = set()
    for key, wh, detail in viol:
        k2 = (key, detail)
        if k2 in seen:
            continue
        seen.add(k2)
        run.ob(False, "child-use|%s|%s" % (ev, key), tag + " a Node is used only by handing it to the recursive evaluation: never destructured outside the walk's own match, compared, formatted, rebuilt or passed elsewhere", wh, detail)
    run.ob(True, "child-use|%s" % ev, tag + " typed tree-walk rule", ev, sample={"evaluator": ev, "functions_scanned": nfns, "node_typed_uses_inspected": nuses, "violations": len(viol)})
    return nuses


def main(tier):
    run, F, models = setup(PID, tier, LEVEL)
    run.trusted = ["determinism of evaluation (C16)", "structural induction over contexts written in DESIGN.md 5/C20"]
    if F is None:
        return run.finish("provenance of child uses", "./check C20 --tier %s" % tier)
    total_uses = 0
    for ev, m in models.items():
        arms = m.tb.eval_arms()
        node = m.tb.adt("ast::Node")
        if node is None:
            run.ob(False, "anchor|%s" % ev, "C20 anchor", ev, "Node enum not found")
            continue
        ftypes = {v["name"]: [f["ty"] for f in v["fields"]] for v in node["variants"]}
        run.ob(set(arms) == set(ftypes), "arms-cover|%s" % ev, "C20 eval has exactly one arm per Node constructor", where(m, "::ast::eval"),
               "arms %s vs constructors %s" % (sorted(set(arms) - set(ftypes)), sorted(set(ftypes) - set(arms))))
        total_uses += tree_walk(run, m, ev, arms, ftypes)
        # eval builds no Node
        ef = m.tb.eval_fn()
        built = 0
        if ef and ef.mir:
            for b in ef.mir["blocks"]:
                for s in b["stmts"]:
                    if s["k"] == "assign" and s["rv"]["k"] == "aggregate" and s["rv"]["ak"] == "adt" and s["rv"]["of"]["adt"].endswith("ast::Node"):
                        built += 1
        run.ob(built == 0, "no-node-built|%s" % ev, "C20 eval constructs no new tree (it only descends)", where(m, "::ast::eval"), "%d Node aggregates in eval" % built)
        # determinism premise (C16), cheap local form: plain entry chain, no static in the crate
        okc, why = m.entry_chain()
        run.ob(okc, "entry-chain|%s" % ev, "C20 each of the three evaluations is the plain chain strip -> parse -> eval (no cache, no fast path that could make E, C[(E)] and C[@] take different routes)", "%s::%s" % (ev, ev), why)
        # bracket = identity, previous_token never read, arms unguarded
        opn = m.prim().get(m.tokvar("("))
        okp = opn is not None and opn[1][1][0] == "tailcall" and opn[1][1][1][0] == "encl" and M("(lambda ((bind ?x)) (var ?x))", opn[1][1][1][3]) is not None
        run.ob(okp, "paren-identity|%s" % ev, "C20 round brackets contribute the tree of their content, nothing else", where(m, "::parser::Parser::parse_number"), show_tail(opn[1][1])[:200] if opn else "no arm")
        reads = 0
        for g in F.fns:
            if g.evaluator != ev or "::parser::" not in g.key or not g.thir:
                continue
            t = m.tb.fn_term(g)
            for path in child_uses(t, ("field", ("param", "self"), "previous_token")):
                parent, idx = path[-1]
                if parent[0] == "set" and idx == 1:
                    continue
                reads += 1
                run.ob(False, "prev-token-read|%s|%s" % (ev, g.short), "C20 parsing decisions depend on the current token only", g.key, "previous_token is read: %s" % T.show(parent)[:160])
        run.ob(True, "prev-token-census|%s" % ev, "C20", ev, sample={"evaluator": ev, "reads_of_previous_token": reads})
        for nm, tbl in (("parse_number", m.prim()), ("convert_token_to_node", m.bin())):
            f = m.tb.fn("::parser::Parser::" + nm)
            t = m.tb.fn_term(f)
            guarded = [s for s in subterms(t) if isinstance(s, tuple) and s and s[0] == "match" and unify(("field", ("param", "self"), "current_token"), s[1]) is not None and any(len(a) == 3 for a in s[2:])]
            run.ob(not guarded, "unguarded|%s|%s" % (ev, nm), "C20 the token dispatch has no side conditions", where(m, "::parser::Parser::" + nm), "guarded arm in token match")
    # the parser is parametric in the sub-trees it combines: it never looks inside a Node it has built (a rewrite keyed
    # on the shape of an operand -- Pow(Negative(b), n) -> Negative(Pow(b, n)), x^0.5 -> sqrt -- tells `(E)` from `@`)
    npf = 0
    for ev, m in models.items():
        peeks = []
        for g in F.fns:
            if g.evaluator != ev or not g.thir or g.derived or "::parser::" not in g.key:
                continue
            npf += 1
            for s_ in subterms(m.tb.fn_term(g)):
                if isinstance(s_, tuple) and len(s_) >= 2 and s_[0] == "pvar" and isinstance(s_[1], str) and s_[1].startswith("Node::"):
                    peeks.append("%s matches %s" % (g.short, s_[1]))
                if isinstance(s_, tuple) and len(s_) >= 2 and s_[0] == "call" and isinstance(s_[1], str) and s_[1].startswith("<Node as cmp::PartialEq>::"):
                    peeks.append("%s compares nodes" % g.short)
        run.ob(not peeks, "parser-parametric|%s" % ev, "C20 the parser never inspects a sub-tree it has parsed: what it builds around an operand does not depend on the operand", "%s::parser" % ev, "; ".join(peeks[:4]),
               sample={"evaluator": ev, "node_patterns_in_parser": 0})
    run.floor("parser functions scanned", npf, 50)
    bad_statics = [s_ for s_ in F.doc["statics"] if s_["mutable"] or not s_["freeze"] or s_["thread_local"]]
    run.ob(not bad_statics, "no-state", "C20 the library keeps no state between the three calls (C16)", "crate statics", "; ".join(s_["path"] for s_ in bad_statics)[:300])
    report_issues(run, models, tables={"T_prim", "T_lex", "T_eval"})
    run.floor("evaluators analysed", len(models), 5)
    run.floor("child uses inspected", total_uses, 150)
    run.coverage_extra["child_uses_inspected"] = total_uses
    return run.finish("provenance of every use of a child in every eval arm; bracket identity; previous_token read census; unguarded token dispatch", "./check C20 --tier %s" % tier)
