"""C05 — eval_f64 is IEEE-754 double arithmetic; non-finite results are values (DESIGN §5 C05).
Structural induction over the tree; premise per node kind: the arm is Ok(op(children)) with the
IEEE / libm operation of that meaning, operand order preserved, no Err besides child propagation."""
from .. import spec, thir as T, chain
from ..pat import subterms
from ..spec_terms import PI_BITS, E_BITS
from .common import setup, report_issues, where, check_chain

LEVEL = "proof"
PID = "C05"
OPS = [("bin", s) for s in "+-*/%^"] + [("pre", "-")] + [("fn", s) for s in ("abs(", "floor(", "ceil(", "trunc(", "truncate(", "round(", "sqrt(", "pow(", "mod(")]


def main(tier):
    run, F, models = setup(PID, tier, LEVEL)
    run.trusted = ["rustc lowers f64 + - * / % and unary - to the IEEE-754 operations (% = fmod)", "std f64::{powf, abs, floor, ceil, trunc, round, sqrt} are the C-library / IEEE functions",
                   "str::parse::<f64> is correctly rounded (literal side: C19)"]
    if F is None or "eval_f64" not in models:
        if F is not None:
            run.fail_closed("eval_f64 not present in this configuration")
        return run.finish("arm table", "./check C05 --tier %s" % tier)
    m = models["eval_f64"]
    for kind, s in OPS:
        check_chain(run, m, kind, s, "C05", "C05 the node computes the IEEE-754 / libm operation of its meaning on its children's values, operands in written order")
    r, err = chain.prefix_chain(m, "+")
    run.ob(r is not None and r[0] == "identity", "meaning|eval_f64|pre|+", "C05 prefix + is the identity", where(m, "::parser::Parser::parse_number"), str(err))
    for s, bits, name in (("pi", PI_BITS, "std::f64::consts::PI"), ("π", PI_BITS, "std::f64::consts::PI"), ("e", E_BITS, "std::f64::consts::E")):
        r, err = chain.constant_chain(m, s)
        ok = r is not None and ((r[1][0] == "const" and r[1][2] == bits) or (r[1][0] == "lit" and float(r[1][1]).hex() == float.fromhex("0x0p0").hex() and False))
        if r is not None and r[1][0] == "lit":
            import struct
            try:
                ok = str(struct.unpack("<Q", struct.pack("<d", float(r[1][1])))[0]) == bits
            except ValueError:
                ok = False
        run.ob(ok, "constant|eval_f64|%s" % s, "C05 pi and e are the nearest doubles", where(m, "::parser::Parser::parse_number"), "%r -> %s" % (s, T.show(r[1]) if r else err),
               sample={"constant": s, "bits": bits})
    # never turned into Err: the arithmetic arms contain no Err constructor and no finiteness test
    arms = m.tb.eval_arms()
    ctors = []
    for kind, s_ in OPS:
        fn_ = {"bin": chain.binary_chain, "pre": chain.prefix_chain, "fn": chain.function_chain}[kind]
        r_, _ = fn_(m, s_)
        if r_ and r_[0] not in ctors and r_[0] != "identity":
            ctors.append(r_[0])
    lf = chain.leaf_ctor(m)
    if lf:
        ctors.append(lf.split("::")[1])
    run.floor("arithmetic constructors resolved from the surface syntax", len(ctors), 12)
    for ctor in ctors:
        a = arms.get(ctor)
        if a is None:
            run.ob(False, "arm|eval_f64|%s" % ctor, "C05 arm present", where(m, "::ast::eval"), "no arm for %s" % ctor)
            continue
        bad = [s for s in subterms(a["term"]) if isinstance(s, tuple) and s and (s[0] in ("Err", "errmsg", "lift", "return") or (s[0] == "call" and isinstance(s[1], str) and s[1] in ("f64::is_nan", "f64::is_finite", "f64::is_infinite")))]
        run.ob(not bad, "no-err|eval_f64|%s" % ctor, "C05 overflow, division by zero and invalid operations stay values (no Err, no finiteness test)", "%s arm %s" % (where(m, "::ast::eval"), ctor), T.show(bad[0])[:120] if bad else "")
    from ..scanners import check_literals
    check_literals(run, m, "C05")
    # the statement is about expressions: their value is that of the standard tree (C04's tables as a premise)
    from .c04 import precedence_tables
    precedence_tables(run, F, {"eval_f64": m}, PID)
    report_issues(run, models={"eval_f64": m}, tables={"T_eval", "T_prim", "T_lex"})
    run.floor("obligations", run.obligations, 30)
    return run.finish("chain surface->token->node->eval arm for every operation the property names, compared with the IEEE/libm reference term; constants by bit pattern", "./check C05 --tier %s" % tier)
