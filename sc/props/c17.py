"""C17 — every feature subset builds and each evaluator behaves identically in it (DESIGN §5 C17).
All 31 non-empty feature subsets (and the empty one) are type-checked under the fact extractor; export
sets are compared with the selection; the normalised fact base (typed THIR) of every compiled evaluator
module and of the shared utils is compared with the all-features build; cfg occurrences are censused."""
import hashlib, itertools, json, os, re, subprocess, tomllib
from concurrent.futures import ThreadPoolExecutor
from .. import extract, thir as T
from ..facts import Facts, EVALUATORS
from ..report import Run
from ..tables import category_order

LEVEL = "proof"
PID = "C17"
DROP = {"sp", "idx", "id", "src", "gargs", "inst_full", "krate"}


def canon(e):
    if isinstance(e, dict):
        return {k: canon(v) for k, v in sorted(e.items()) if k not in DROP}
    if isinstance(e, list):
        return [canon(x) for x in e]
    return e


def module_hashes(doc):
    """hash of the (folded, id-free) THIR of every function, grouped by evaluator module / utils"""
    F = Facts(doc)
    groups = {}
    from ..tables import catinfo
    cat = catinfo(F)
    catname = cat["path"] if cat else "utils::operator_category::OperatorCategory"
    for f in F.fns:
        if not f.thir:
            continue
        if catname in f.key or catname in (f.j.get("impl_self") or ""):
            continue      # the category enum is cfg-dependent by design; it is compared as an order relation (category-order)
        k = f.evaluator or ("utils" if f.key.startswith("utils::") or "utils::" in f.key else "other")
        h = hashlib.sha256(json.dumps(canon(T.fold(f.thir)), sort_keys=True).encode()).hexdigest()
        groups.setdefault(k, {})[f.key] = h
    # ADTs of each module (variants in order)
    for a in doc["adts"]:
        m = re.match(r"^(eval_[a-z0-9]+)::", a["path"])
        k = m.group(1) if m else "utils"
        if a["path"] == catname:
            continue
        groups.setdefault(k, {})["adt:" + a["path"]] = hashlib.sha256(json.dumps(a["variants"]).encode()).hexdigest()
    return groups


def strip_rust(src):
    """remove comments, string and char literals (keeps newlines)"""
    out = []
    i, n = 0, len(src)
    while i < n:
        c = src[i]
        if src.startswith("//", i):
            j = src.find("\n", i)
            i = n if j < 0 else j
        elif src.startswith("/*", i):
            depth, i = 1, i + 2
            while i < n and depth:
                if src.startswith("/*", i):
                    depth += 1; i += 2
                elif src.startswith("*/", i):
                    depth -= 1; i += 2
                else:
                    if src[i] == "\n":
                        out.append("\n")
                    i += 1
        elif c == '"':
            i += 1
            while i < n and src[i] != '"':
                if src[i] == "\\":
                    i += 1
                if i < n and src[i] == "\n":
                    out.append("\n")
                i += 1
            i += 1
            out.append('""')
        elif c == "r" and re.match(r'r#*"', src[i:i + 6]):
            m = re.match(r'r(#*)"', src[i:])
            close = '"' + m.group(1)
            j = src.find(close, i + len(m.group(0)))
            seg = src[i:(j + len(close)) if j >= 0 else n]
            out.append("\n" * seg.count("\n"))
            i = (j + len(close)) if j >= 0 else n
        elif c == "'" and re.match(r"'(\\.[^']*|[^\\'])'", src[i:i + 12]):
            m = re.match(r"'(\\.[^']*|[^\\'])'", src[i:i + 12])
            i += len(m.group(0))
            out.append("' '")
        else:
            out.append(c)
            i += 1
    return "".join(out)


def cfg_census(repo):
    occ = []
    for p in extract.source_files(repo):
        if not p.endswith(".rs"):
            continue
        txt = strip_rust(open(p, encoding="utf-8").read())
        rel = os.path.relpath(p, repo)
        for m in re.finditer(r"\bcfg(?:_attr|_match|_select)?\s*!?\s*\(", txt):
            depth, j = 0, m.end() - 1
            while j < len(txt):
                if txt[j] == "(":
                    depth += 1
                elif txt[j] == ")":
                    depth -= 1
                    if depth == 0:
                        break
                j += 1
            pred = re.sub(r"\s+", "", txt[m.start():j + 1])
            line = txt.count("\n", 0, m.start()) + 1
            occ.append((rel, line, pred))
    return occ


def cfg_names(pred):
    """the configuration names a cfg predicate depends on (for cfg_attr: its condition, i.e. the first argument)"""
    body = pred[pred.index("(") + 1:-1] if "(" in pred else pred
    if pred.startswith("cfg_attr"):
        depth = 0
        for i, c in enumerate(body):
            depth += c == "("
            depth -= c == ")"
            if c == "," and depth == 0:
                body = body[:i]
                break
    return set(re.findall(r"[A-Za-z_]\w*", body)) - {"not", "all", "any", "true", "false"}


def _extract_one(fs):
    try:
        d, info = extract.extract(features=fs)
        return fs, d, None
    except extract.ExtractError as e:
        return fs, None, str(e)


def _summarise_one(arg):
    """per-configuration summary (exports, module hashes, category order), cached beside the fact file"""
    fs, d = arg
    if d is None:
        return None
    sp = os.path.join(d, "c17summary.v6.json")
    if os.path.exists(sp):
        with open(sp) as fh:
            return json.load(fh)
    with open(os.path.join(d, "string_calculator.facts.json")) as fh:
        doc = json.load(fh)
    order, derived, manual = category_order(Facts(doc))
    casts = []
    enums = {a["path"]: [v["name"] for v in a["variants"]] for a in doc["adts"] if a["kind"] == "Enum"}
    for fj in doc["fns"]:
        th = fj.get("thir")
        if not th:
            continue

        def w(e, fj=fj):
            if isinstance(e, dict):
                if e.get("k") == "cast" and e.get("from") in enums:
                    casts.append([fj["path"], e["from"], e.get("ty"), e["sp"][0]])
                for v in e.values():
                    w(v)
            elif isinstance(e, list):
                for v in e:
                    w(v)
        w(th)
    sm = {"exports": doc["exports"], "modules": module_hashes(doc), "category": [order, derived, manual], "enum_casts": casts, "enums": enums}
    with open(sp + ".tmp%d" % os.getpid(), "w") as fh:
        json.dump(sm, fh)
    os.replace(sp + ".tmp%d" % os.getpid(), sp)
    return sm


def subsets():
    fs = extract.ALL_FEATURES
    out = []
    for n in range(1, len(fs) + 1):
        for c in itertools.combinations(fs, n):
            out.append(list(c))
    return out


def main(tier):
    run = Run(PID, tier, LEVEL)
    run.trusted = ["rustc type checking under the driver = the build's front end (codegen is not configuration dependent beyond the cfg'd items)",
                   "the compiler is deterministic: equal typed THIR of a module implies equal behaviour of its functions"]
    repo = extract.repo_dir()
    subs = subsets()

    with ThreadPoolExecutor(max_workers=8) as ex:
        ext = list(ex.map(_extract_one, subs))
    from multiprocessing import Pool
    with Pool(8) as pool:
        sums = pool.map(_summarise_one, [(fs, d) for fs, d, e in ext])
    res = [(fs, sm, e) for (fs, d, e), sm in zip(ext, sums)]
    full = [d for fs, d, e in res if d is not None and sorted(fs) == sorted(extract.ALL_FEATURES)]
    if not full:
        run.fail_closed("all-features configuration did not build", next((e for fs, d, e in res if e), "")[-1200:])
        return run.finish("configuration matrix", "./check C17 --tier %s" % tier)
    ref = full[0]["modules"]
    ref_order, ref_derived = full[0]["category"][0], full[0]["category"][1]
    nmod = 0
    for fs, doc, err in res:
        name = "+".join(fs)
        run.ob(err is None, "builds|%s" % name, "C17 the crate compiles with exactly this feature subset", "features %s" % name, (err or "")[-600:], sample={"features": fs, "builds": True} if len(run.samples) < 3 else None)
        if doc is None:
            continue
        # exports
        pub = sorted(x["name"] for x in doc["exports"] if x["public"])
        want = sorted([f for f in fs] + (["Number"] if "eval_number" in fs else []) + ["ParseError"])
        run.ob(pub == want, "exports|%s" % name, "C17 exactly the selected eval_* functions (plus Number with eval_number, and ParseError) are exported", "crate root, features %s" % name,
               "exports %s, expected %s" % (pub, want), sample={"features": fs, "exports": pub} if len(run.samples) < 5 else None)
        kinds = {x["name"]: x["kind"] for x in doc["exports"] if x["public"]}
        run.ob(all(kinds.get(f) == "Fn" for f in fs), "export-kinds|%s" % name, "C17 the exported eval_* items are functions", "crate root", str(kinds))
        # same behaviour: module fact bases equal the all-features build
        got = doc["modules"]
        for mod in list(fs) + ["utils"]:
            a, b = got.get(mod, {}), ref.get(mod, {})
            if mod == "utils":
                # utils items are shared; compare the functions present in both (OperatorCategory is compared as an order relation below)
                keys = [k for k in a if "operator_category" not in k]
                diff = [k for k in keys if a[k] != b.get(k)]
                missing = []       # a utils item gated to the evaluators that use it may be absent: if it were needed the subset would not build (builds|..)
            else:
                diff = [k for k in set(a) | set(b) if a.get(k) != b.get(k)]
                missing = []
            nmod += 1
            run.ob(not diff and not missing, "same-module|%s|%s" % (name, mod), "C17 the typed program of the module is identical to the all-features build", "module %s, features %s" % (mod, name),
                   "differs in %s %s" % (sorted(diff)[:4], sorted(missing)[:3]), distinct="same-module|%s" % mod)
        order, derived, manual = doc["category"]
        restricted = [c for c in ref_order if c in (order or [])]
        run.ob(order == restricted and derived == ref_derived and not manual, "category-order|%s" % name, "C17 the precedence order restricted to the surviving variants is the all-features order",
               "utils::OperatorCategory, features %s" % name, "%s vs %s" % (order, restricted), distinct="category-order")
        need = {"BitwiseOr", "BitwiseAnd", "Shift"}
        run.ob((need <= set(order or [])) == ("eval_i64" in fs), "category-gate|%s" % name, "C17 the i64-only categories exist exactly when eval_i64 is selected", "utils::OperatorCategory", str(order), distinct="category-gate")
    # numeric value of an enum whose variant list depends on the feature set
    variant_sets = {}
    for fs, doc, err in res:
        if doc is None:
            continue
        for path, names in doc.get("enums", {}).items():
            variant_sets.setdefault(path, set()).add(tuple(names))
    cfg_enums = {p_ for p_, vs in variant_sets.items() if len(vs) > 1}
    from ..tables import catinfo as _ci
    _cat = _ci(Facts(extract.load()))
    run.ob(any(p_ == (_cat["path"] if _cat else "?") for p_ in cfg_enums), "cfg-enums", "C17 the enums whose variants depend on the feature set are known", "adts", str(sorted(cfg_enums)), sample={"cfg_dependent_enums": sorted(cfg_enums)})
    seen_c = set()
    for fs, doc, err in res:
        if doc is None:
            continue
        for fnp, frm, to, line in doc.get("enum_casts", []):
            if frm in cfg_enums and (fnp, frm) not in seen_c:
                seen_c.add((fnp, frm))
                run.ob(False, "enum-discriminant|%s" % fnp.replace("::<'a>", ""), "C17 no code depends on the numeric discriminant of an enum whose variants are feature-gated (it shifts with the feature set)", "%s line %s" % (fnp, line), "`%s as %s`" % (frm, to))
    # evaluator isolation: module identity only implies identical behaviour if no evaluator's result can depend on
    # a sibling that exists in some subsets only: no crate state, and the entry points are the plain
    # strip -> parse -> eval chain (shared premise)
    try:
        from ..model import Model
        from ..premises import entry_chains
        fdoc = extract.load()
        FF = Facts(fdoc)
        bad_statics = [s_ for s_ in fdoc["statics"] if s_["mutable"] or not s_["freeze"] or s_["thread_local"]]
        run.ob(not bad_statics, "isolation|no-state", "C17 evaluators share no state: what one evaluator returns cannot depend on calls made to a sibling that only some subsets contain (C16)",
               "crate statics", "; ".join(s_["path"] for s_ in bad_statics)[:300], sample={"statics": len(fdoc["statics"]), "stateful": 0})
        entry_chains(run, {ev: Model(FF, ev) for ev in FF.evaluators_present()}, PID)
    except extract.ExtractError as e:
        run.fail_closed("all-features fact base unavailable", str(e)[-600:])
    # empty subset: builds and exports nothing
    try:
        d0, info = extract.extract(features=[])
        p = os.path.join(d0, "string_calculator.facts.json")
        pub = []
        if os.path.exists(p):
            pub = [x["name"] for x in json.load(open(p))["exports"] if x["public"]]
        run.ob(pub == [], "exports|none", "C17 with no feature the crate builds and exports nothing", "crate root", str(pub))
    except extract.ExtractError as e:
        run.ob(False, "builds|none", "C17 the crate builds with no feature", "features none", str(e)[-400:])
    # cfg census
    occ = cfg_census(repo)
    allowed_files = {"src/lib.rs", "src/utils/operator_category.rs"}
    n_feature = 0
    for rel, line, pred in occ:
        if pred == "cfg(test)":
            continue
        if "feature=" in pred or "feature" in pred:
            n_feature += 1
        # what a feature gate does to the compiled program is decided by the per-module comparison above, wherever the
        # gate is written; the census only rules out predicates that are not about the five features at all
        names = cfg_names(pred)
        run.ob(names <= {"feature"}, "cfg|%s|%s" % (rel, pred[:60]),
               "C17 conditional compilation depends on the evaluator features only (not on profile, target or other cfgs)", "%s:%d" % (rel, line), pred[:200], distinct="cfg|%s" % rel)
    run.floor("cfg(feature) occurrences found", n_feature, 5)
    # Cargo.toml feature table
    try:
        ct = tomllib.load(open(os.path.join(repo, "Cargo.toml"), "rb"))
        feats = ct.get("features", {})
        want = {"eval_decimal": ["dep:rust_decimal"], "eval_complex": ["dep:num-complex"], "eval_f64": [], "eval_i64": [], "eval_number": []}
        okf = all(sorted(feats.get(k, ["?"])) == sorted(v) for k, v in want.items()) and sorted(feats.get("default", [])) == sorted(want) and set(feats) == set(want) | {"default"}
        run.ob(okf, "cargo-features", "C17 Cargo features: five independent evaluator features, default = all, optional dependencies only behind their evaluator", "Cargo.toml [features]", str(feats))
        deps = ct.get("dependencies", {})
        okd = set(deps) == {"num-complex", "rust_decimal"} and all(isinstance(v, dict) and v.get("optional") for v in deps.values())
        run.ob(okd, "cargo-deps", "C17 dependency feature sets do not depend on the selected subset", "Cargo.toml [dependencies]", str(deps))
        rd = deps.get("rust_decimal", {})
        nc = deps.get("num-complex", {})
        okdf = isinstance(rd, dict) and sorted(rd.get("features", [])) == ["maths"] and rd.get("default-features") is False and isinstance(nc, dict) and not nc.get("features")
        run.ob(okdf, "cargo-dep-features", "C17 the dependencies are built with the documented feature set (rust_decimal: maths only; a different set, e.g. maths-nopanic, changes every evaluator's behaviour)", "Cargo.toml [dependencies]", str(deps))
    except Exception as e:
        run.fail_closed("cannot read Cargo.toml", repr(e))
    if tier == "thorough":
        # overflow-off variants and the stable toolchain for the singletons + full set
        def one2(fs):
            try:
                extract.load(features=fs, overflow=False)
                return fs, None
            except extract.ExtractError as e:
                return fs, str(e)
        with ThreadPoolExecutor(max_workers=8) as ex:
            for fs, err in ex.map(one2, subs):
                run.ob(err is None, "builds-ovf-off|%s" % "+".join(fs), "C17 builds without overflow checks too", "+".join(fs), (err or "")[-300:], distinct="builds-ovf-off")
        import tempfile, shutil
        for fs in [[f] for f in extract.ALL_FEATURES] + [extract.ALL_FEATURES]:
            t = tempfile.mkdtemp(prefix="sc-stable-")
            try:
                p = subprocess.run(["cargo", "check", "--offline", "--lib", "--no-default-features", "--features", ",".join(fs)], cwd=repo, env=dict(os.environ, CARGO_TARGET_DIR=t, CARGO_NET_OFFLINE="true"),
                                   stdout=subprocess.PIPE, stderr=subprocess.STDOUT, text=True)
                run.ob(p.returncode == 0, "builds-stable|%s" % "+".join(fs), "C17 builds with the stable toolchain", "+".join(fs), p.stdout[-400:], distinct="builds-stable")
            finally:
                shutil.rmtree(t, ignore_errors=True)
    run.floor("configurations", len([1 for fs, d, e in res if d is not None]), 31)
    run.coverage_extra["configurations"] = len(res) + 1
    run.coverage_extra["module_comparisons"] = nmod
    return run.finish("all 31 non-empty feature subsets + the empty one: type-check, export set, per-module typed-THIR hash equality with the all-features build, category order restriction, cfg census, Cargo feature table",
                      "./check C17 --tier %s" % tier, exhaustive=True)
