"""C09 — eval_number keeps integers exact and falls back to doubles only when it must (DESIGN §5 C09).
Each operator arm is partially evaluated for every (Integer|Float) operand combination; the residual
decision tree is compared with the reference; plus the cast-guard rule (f64 -> i64 under [-2^63, 2^63))."""
import re
from .. import spec, thir as T, chain
from ..pat import M, parse as P, unify, subterms
from ..justify import walk_ctx
from .common import setup, report_issues, where

LEVEL = "proof"
PID = "C09"
INT = lambda s: ("ctor", "Number::Integer", (s,))
FLT = lambda s: ("ctor", "Number::Float", (s,))
TWO63 = 9223372036854775808.0


def canon(t):
    if isinstance(t, tuple):
        if len(t) == 3 and t[0] == "ctor" and t[1] == "Number::Float":
            return ("F", canon(t[2]))
        if len(t) == 3 and t[0] == "ctor" and t[1] == "Number::Integer":
            return ("I", canon(t[2]))
        if len(t) == 3 and t[0] == "call" and t[1] == "<Number as convert::From>::from":
            return ("N", canon(t[2]))
        if t == ("cast", "i64", "f64", ("a",)):
            return ("fa",)
        if t == ("cast", "i64", "f64", ("b",)):
            return ("fb",)
        return tuple(canon(x) for x in t)
    return t


def NV(x):
    return "(| (F %s) (N %s))" % (x, x)


def residual(m, kind, surf, va, vb=None):
    fn = {"bin": chain.binary_chain, "pre": chain.prefix_chain, "post": chain.postfix_chain, "fn": chain.function_chain}[kind]
    r, err = fn(m, surf)
    if r is None:
        return None, err
    sub = {("ev", ("A0",)): va("a")}
    if vb is not None:
        sub[("ev", ("A1",)): vb("b")] if False else sub.update({("ev", ("A1",)): vb("b")})
    return T.alpha(canon(chain.peval(r[1], sub))), None


def fold_f64(t):
    """constant-fold (cast i64 f64 (const ..MAX/MIN bits)) and float literals to a Python float"""
    e = M(("cast", "i64", "f64", ("const", "_", "?bits")), t)
    if e is not None and e["?bits"] is not None:
        v = int(e["?bits"])
        if v >= 2 ** 63:
            v -= 2 ** 64
        return float(v)
    e = M(("lit", "?v", "f64"), t)
    if e is not None:
        try:
            return float(e["?v"])
        except ValueError:
            return None
    e = M(("un", "neg", "f64", "?x"), t)
    if e is not None:
        v = fold_f64(e["?x"])
        return None if v is None else -v
    return None


def guard_ok(cond, x):
    """cond implies  -2^63 <= x < 2^63  (x: term).  Returns (ok, why)"""
    conj = []

    def flat(c):
        if isinstance(c, tuple) and c and c[0] == "op" and c[1] == "and":
            flat(c[3])
            flat(c[4])
        else:
            conj.append(c)
    flat(cond)
    lo = hi = False
    why = []
    for c in conj:
        if not (isinstance(c, tuple) and len(c) == 5 and c[0] == "op" and c[2] == "f64"):
            continue
        op, l, r = c[1], c[3], c[4]
        if l == x:
            k = fold_f64(r)
            if k is None:
                continue
            if op == "lt" and k <= TWO63:
                hi = True
            elif op == "le" and k < TWO63:
                hi = True
            elif op == "le" and k == TWO63:
                why.append("inclusive upper bound at 2^63 admits a value that saturates when cast")
            elif op == "ge" and k >= -TWO63:
                lo = True
            elif op == "gt" and k >= -TWO63:
                lo = True
        elif r == x:
            k = fold_f64(l)
            if k is None:
                continue
            if op == "gt" and k <= TWO63:
                hi = True
            elif op == "ge" and k < TWO63:
                hi = True
            elif op == "ge" and k == TWO63:
                why.append("inclusive upper bound at 2^63 admits a value that saturates when cast")
            elif op == "le" and k >= -TWO63:
                lo = True
            elif op == "lt" and k >= -TWO63:
                lo = True
    if not hi:
        why.append("no strict upper bound < 2^63 on the cast operand")
    if not lo:
        why.append("no lower bound >= -2^63 on the cast operand")
    return lo and hi, "; ".join(why)


def nan_excluded_by(cond, x):
    """cond (true) implies x is not NaN: one of its conjuncts is an exact integrality test of x or of the value x is the floor/trunc of
    (v - floor(v) == 0.0 is false for NaN and for the infinities)"""
    from .c18 import integral_test
    conj = []

    def flat(c):
        if isinstance(c, tuple) and c and c[0] == "op" and c[1] == "and":
            flat(c[3])
            flat(c[4])
        else:
            conj.append(c)
    flat(cond)
    cands = [x]
    if isinstance(x, tuple) and len(x) == 3 and x[0] == "call" and x[1] in ("f64::floor", "f64::trunc", "f64::round", "f64::ceil"):
        cands.append(x[2])
    return any(integral_test(c, v) for c in conj for v in cands)


def exclusion_ok(cond, x, nan_excluded=False):
    """the else-branch of `if cond`: (not cond) implies -2^63 <= x < 2^63.  cond must be a disjunction that is true for
    NaN, for x >= 2^63 and for x < -2^63 (comparisons alone are all false for NaN, so a NaN test is required)."""
    dis = []

    def flat(c):
        if isinstance(c, tuple) and c and c[0] == "op" and c[1] == "or":
            flat(c[3])
            flat(c[4])
        else:
            dis.append(c)
    flat(cond)
    if len(dis) < 2:
        return False, ""
    hi = lo = False
    nan = nan_excluded
    for c in dis:
        if c in (("call", "f64::is_nan", x), ("op", "ne", "f64", x, x), ("un", "not", "bool", ("call", "f64::is_finite", x))):
            nan = True
            continue
        if not (isinstance(c, tuple) and len(c) == 5 and c[0] == "op" and c[2] == "f64"):
            continue
        op, l, r = c[1], c[3], c[4]
        if r == x:
            op, l, r = {"lt": "gt", "le": "ge", "gt": "lt", "ge": "le"}.get(op, op), r, l
        if l != x:
            continue
        k = fold_f64(r)
        if k is None:
            continue
        if (op == "ge" and k <= TWO63) or (op == "gt" and k < TWO63):
            hi = True
        if (op == "lt" and k >= -TWO63) or (op == "le" and k >= -TWO63):
            lo = True
    why = []
    if not nan:
        why.append("early-exit disjunction has no NaN test: every comparison is false for NaN, which is then cast (to 0)")
    if not hi:
        why.append("no exclusion of x >= 2^63")
    if not lo:
        why.append("no exclusion of x < -2^63")
    return nan and hi and lo, "; ".join(why)



def int_pow_table(t):
    """Integer ^ Integer decided on a decision table instead of on the nesting of the tree: the residual arm is interpreted for
    representative exponents of every range class the code can distinguish (below i32::MIN, i32::MIN..0, 0..=u32::MAX, above) and
    for both outcomes of `checked_pow`; the base stays symbolic.  Interpreted fragment: comparisons of the exponent with constants,
    `u32/i32::try_from(b)` (Ok exactly when b is in the target range), `.ok()`, `and_then`, match with guards.  Returns
    {class: leaf kind} or None when something outside the fragment is met."""
    A, B = ("a",), ("b",)
    reps = {"below-i32": [-2 ** 63, -2 ** 31 - 1], "i32-negative": [-2 ** 31, -1], "u32": [0, 1, 2 ** 32 - 1], "above-u32": [2 ** 32, 2 ** 63 - 1]}

    class Unknown(Exception):
        pass

    def const(x):
        e = M(("lit", "?v", "?ty"), x)
        if e is not None and re.match(r"^-?\d+$", str(e["?v"])):
            return int(e["?v"])
        e = M(("cast", "?f", "?t", ("const", "_", "?bits")), x)
        if e is not None and e["?bits"] is not None:
            v = int(e["?bits"])
            bits = {"i32": 32, "i64": 64}.get(e["?f"])
            if bits and v >= 2 ** (bits - 1):
                v -= 2 ** bits
            return v
        return None

    def run(b, pow_ok):
        env = {}

        def ival(x):
            if x == B:
                return b
            if isinstance(x, tuple) and len(x) == 2 and x[0] == "var" and isinstance(env.get(x[1]), int):
                return env[x[1]]
            if isinstance(x, tuple) and len(x) == 4 and x[0] == "cast" and isinstance(ival_or_none(x[3]), int):
                v = ival_or_none(x[3])
                lo, hi = {"u32": (0, 2 ** 32 - 1), "i32": (-2 ** 31, 2 ** 31 - 1), "i64": (-2 ** 63, 2 ** 63 - 1), "usize": (0, 2 ** 64 - 1)}.get(x[2], (None, None))
                if lo is None or not (lo <= v <= hi):
                    raise Unknown()          # a truncating cast: outside the fragment (and a defect if reachable)
                return v
            c = const(x)
            if c is None:
                raise Unknown()
            return c

        def ival_or_none(x):
            try:
                return ival(x)
            except Unknown:
                return None

        def cond(c):
            if isinstance(c, tuple) and c and c[0] == "op" and len(c) == 5:
                if c[1] in ("and", "or"):
                    l = cond(c[3])
                    return (l and cond(c[4])) if c[1] == "and" else (l or cond(c[4]))
                if c[1] in ("eq", "ne", "lt", "le", "gt", "ge"):
                    x, y = ival(c[3]), ival(c[4])
                    return {"eq": x == y, "ne": x != y, "lt": x < y, "le": x <= y, "gt": x > y, "ge": x >= y}[c[1]]
            if isinstance(c, tuple) and c and c[0] == "un" and c[1] == "not":
                return not cond(c[-1])
            if isinstance(c, tuple) and len(c) == 4 and c[0] == "call" and c[1] == "ops::RangeInclusive::contains" and c[2][0] == "rangei":
                return ival(c[2][1]) <= ival(c[3]) <= ival(c[2][2])
            raise Unknown()

        def opt(x):
            """value of an Option/Result-typed term: ("some", v) / ("none",)"""
            if isinstance(x, tuple) and x:
                e = M(("call", "?f", B), x)
                if e is not None and e["?f"] in ("<u32 as convert::TryFrom>::try_from", "<i32 as convert::TryFrom>::try_from"):
                    lo, hi = (0, 2 ** 32 - 1) if "u32" in e["?f"] else (-2 ** 31, 2 ** 31 - 1)
                    return ("some", b) if lo <= b <= hi else ("none",)
                if x[0] == "okopt" and len(x) == 2:
                    return opt(x[1])
                if x[0] == "bindopt" and len(x) == 4 and x[2][0] == "bind":
                    o = opt(x[1])
                    if o[0] == "none":
                        return o
                    env[x[2][1]] = o[1]
                    return opt(x[3])
                if x[0] == "call" and x[1] == "i64::checked_pow" and len(x) == 4 and x[2] == A:
                    ex = ival(x[3])
                    if ex != b or not (0 <= ex <= 2 ** 32 - 1):
                        raise Unknown()
                    return ("some", "POW") if pow_ok else ("none",)
            raise Unknown()

        def leaf(x):
            if isinstance(x, tuple) and x and x[0] == "if" and len(x) == 4:
                return leaf(x[2] if cond(x[1]) else x[3])
            if isinstance(x, tuple) and x and x[0] == "match" and len(x) > 2:
                o = opt(x[1])
                for arm in x[2:]:
                    p, body = arm[0], arm[-1]
                    if p == "_":
                        hit = True
                    elif isinstance(p, tuple) and p[0] == "pvar" and p[1] in ("Option::Some", "Result::Ok"):
                        hit = o[0] == "some"
                        if hit and len(p) == 3 and isinstance(p[2], tuple) and p[2][0] == "bind":
                            env[p[2][1]] = o[1]
                    elif isinstance(p, tuple) and p[0] == "pvar" and p[1] in ("Option::None", "Result::Err"):
                        hit = o[0] == "none"
                    else:
                        raise Unknown()
                    if hit and (len(arm) == 2 or cond(arm[1])):
                        return leaf(body)
                raise Unknown()
            e = M(("Ok", ("I", ("var", "?p"))), x)
            if e is not None and env.get(e["?p"]) == "POW":
                return "exact"
            for nm in ("powf", "powi"):
                for wrap in ("F", "N"):
                    e = M(("Ok", (wrap, ("call", "f64::" + nm, ("fa",), "?e"))), x)
                    if e is not None:
                        if nm == "powf" and e["?e"] == ("fb",):
                            return "powf"
                        if nm == "powi" and ival_or_none(e["?e"]) == b:
                            return "powi"
            raise Unknown()
        return leaf(t)
    out = {}
    try:
        for cls, bs in reps.items():
            kinds = set()
            for b in bs:
                for pow_ok in ((True, False) if cls == "u32" else (True,)):
                    kinds.add((pow_ok, run(b, pow_ok)) if cls == "u32" else run(b, pow_ok))
            out[cls] = kinds
    except (Unknown, KeyError, IndexError, TypeError, ValueError):
        return None
    return out

def cast_guard_rule(run, term, wherestr, keyprefix):
    n = [0]

    def v(node, anc):
        if node[0] == "cast" and node[1] == "f64" and node[2] == "i64":
            # only casts whose result becomes an Integer
            wrapped = any(p[0] == "ctor" and p[1] == "Number::Integer" for (p, i) in anc[-2:])
            if not wrapped:
                return
            n[0] += 1
            x = node[3]
            ok, why = False, "cast is not inside the then-branch of a range guard"
            not_nan = any(p[0] == "if" and len(p) == 4 and i == 2 and nan_excluded_by(p[1], x) for (p, i) in anc)
            for (p, i) in anc:
                if p[0] == "if" and len(p) == 4 and i == 2:
                    ok, why = guard_ok(p[1], x)
                    if ok:
                        break
                if p[0] == "if" and len(p) == 4 and i == 3:
                    ok, why2 = exclusion_ok(p[1], x, nan_excluded=not_nan)
                    if ok:
                        break
                    why = why2 or why
            run.ob(ok, "%s|cast-guard" % keyprefix, "C09/C18 cast-guard: `x as i64` that becomes an Integer is dominated by -2^63 <= x and x < 2^63 (strict) on the same x", wherestr,
                   "cast of %s: %s" % (T.show(x)[:80], why), sample={"site": keyprefix, "cast_operand": T.show(x)[:60], "guard": "[-2^63, 2^63)"})
    walk_ctx(term, v)
    return n[0]


def main(tier):
    run, F, models = setup(PID, tier, LEVEL)
    run.trusted = ["i64::checked_* return None exactly when the exact result does not fit", "`i64 as f64` is the double value of the integer; f64 operators are IEEE",
                   "a double in [-2^63, 2^63) that is integral converts exactly with `as i64`"]
    if F is None or "eval_number" not in models:
        if F is not None:
            run.fail_closed("eval_number not present")
        return run.finish("case analysis", "./check C09 --tier %s" % tier)
    m = models["eval_number"]
    W = where(m, "::ast::eval")

    def ob(key, kind, surf, va, vb, pats, rule, table=None):
        t, err = residual(m, kind, surf, va, vb)
        if t is None:
            run.ob(False, key, rule, W, "chain broken: %s" % err)
            return
        ok = any(M(p, t) is not None for p in pats)
        if not ok and table is not None:
            ok = table(t)
        run.ob(ok, key, rule, "%s (%s %r)" % (W, kind, surf), "residual %s ; expected %s" % (T.show(t)[:300], pats[0][:200]),
               sample={"case": key, "residual": T.show(t)[:160]} if len(run.samples) < 9 else None)

    R_INT = "C09 Integer operands: Integer(exact) when it fits, otherwise the Float of the operands' double values"
    R_FLT = "C09 any Float operand: the value of the IEEE double operation on the operands' values"
    for surf, cop, fop in (("+", "add", "add"), ("-", "sub", "sub"), ("*", "mul", "mul")):
        ob("II|%s" % surf, "bin", surf, INT, INT, ["(match (call i64::checked_%s (a) (b)) ((pvar Option::Some (bind ?s)) (Ok (I (var ?s)))) ((pvar Option::None) (Ok %s)))" % (cop, NV("(op %s f64 (fa) (fb))" % fop))], R_INT)
    for surf, fop in (("+", "add"), ("-", "sub"), ("*", "mul"), ("/", "div"), ("%", "rem")):
        ob("IF|%s" % surf, "bin", surf, INT, FLT, ["(Ok %s)" % NV("(op %s f64 (fa) (b))" % fop)], R_FLT)
        ob("FI|%s" % surf, "bin", surf, FLT, INT, ["(Ok %s)" % NV("(op %s f64 (a) (fb))" % fop)], R_FLT)
        ob("FF|%s" % surf, "bin", surf, FLT, FLT, ["(Ok %s)" % NV("(op %s f64 (a) (b))" % fop)], R_FLT)
    FDIV = NV("(op div f64 (fa) (fb))")
    ob("II|/", "bin", "/", INT, INT, ["(match (call (| i64::checked_rem_euclid i64::checked_rem) (a) (b)) ((pvar Option::Some (bind ?r)) (if (op eq i64 (var ?r) (lit 0 i64)) (Ok (I (op div i64 (a) (b)))) (Ok %s))) ((pvar Option::None) (Ok %s)))" % (FDIV, FDIV),
                                      "(match (call (| i64::checked_rem_euclid i64::checked_rem) (a) (b)) ((pvar Option::Some (pconst 0 i64)) (Ok (I (op div i64 (a) (b))))) ((| (por (pvar Option::Some _) (pvar Option::None)) _) (Ok %s)))" % FDIV],
       "C09 Integer / Integer: Integer(quotient) iff the division is exact and fits, otherwise the Float quotient")
    FREM = NV("(op rem f64 (fa) (fb))")
    ob("II|%", "bin", "%", INT, INT, ["(if (op eq i64 (b) (lit 0 i64)) (Ok %s) (Ok (I (call i64::wrapping_rem (a) (b)))))" % FREM,
                                      "(match (call i64::checked_rem (a) (b)) ((pvar Option::Some (bind ?r)) (Ok (I (var ?r)))) ((pvar Option::None) (if (op eq i64 (b) (lit 0 i64)) (Ok %s) (Ok (I (lit 0 i64))))))" % FREM],
       "C09 Integer % Integer: Integer(exact remainder); by zero: the Float remainder of the double values")
    ob("I|neg", "pre", "-", INT, None, ["(match (call i64::checked_sub (lit 0 i64) (a)) ((pvar Option::Some (bind ?s)) (Ok (I (var ?s)))) ((pvar Option::None) (Ok %s)))" % NV("(un neg f64 (fa))"),
                                        "(match (call i64::checked_neg (a)) ((pvar Option::Some (bind ?s)) (Ok (I (var ?s)))) ((pvar Option::None) (Ok %s)))" % NV("(un neg f64 (fa))")], R_INT)
    ob("F|neg", "pre", "-", FLT, None, ["(Ok %s)" % NV("(un neg f64 (a))")], R_FLT)
    ob("I|abs", "fn", "abs(", INT, None, ["(match (call i64::checked_abs (a)) ((pvar Option::Some (bind ?s)) (Ok (I (var ?s)))) ((pvar Option::None) (Ok %s)))" % NV("(call f64::abs (fa))")], R_INT)
    ob("F|abs", "fn", "abs(", FLT, None, ["(Ok %s)" % NV("(call f64::abs (a))")], R_FLT)
    ob("I|sgn", "fn", "sgn(", INT, None, ["(Ok (I (call i64::signum (a))))"], R_INT)
    ob("F|sgn", "fn", "sgn(", FLT, None, ["(if (op gt f64 (a) (lit 0.0 f64)) (Ok (I (lit 1 i64))) (if (op eq f64 (a) (lit 0.0 f64)) (Ok (I (lit 0 i64))) (Ok (I (lit -1 i64)))))",
                                          "(if (op eq f64 (a) (lit 0.0 f64)) (Ok %s) (Ok %s))" % (NV("(lit 0.0 f64)"), NV("(call f64::signum (a))"))], "C09 sgn of a Float")
    POWF = NV("(call f64::powf (fa) (fb))")
    ob("II|^", "bin", "^", INT, INT, ["(if (op ge i64 (b) (lit 0 i64)) (if (op le i64 (b) (cast u32 i64 (const _ 4294967295))) (match (call i64::checked_pow (a) (cast i64 u32 (b))) ((pvar Option::Some (bind ?p)) (Ok (I (var ?p)))) ((pvar Option::None) (Ok %s))) (Ok %s)) _)" % (POWF, POWF)],
       "C09 Integer ^ Integer exponent in 0..=4294967295: Integer(exact power) when it fits, otherwise the Float power",
       table=lambda t: (lambda tb: tb is not None and tb["u32"] == {(True, "exact"), (False, "powf")} and tb["above-u32"] == {"powf"} and tb["i32-negative"] <= {"powi", "powf"} and tb["below-i32"] == {"powf"})(int_pow_table(t)))
    ob("IF|^", "bin", "^", INT, FLT, ["(Ok %s)" % NV("(call f64::powf (fa) (b))")], R_FLT)
    ob("FI|^", "bin", "^", FLT, INT, ["(Ok %s)" % NV("(call f64::powf (a) (fb))")], R_FLT)
    ob("FF|^", "bin", "^", FLT, FLT, ["(Ok %s)" % NV("(call f64::powf (a) (b))")], R_FLT)
    ob("I|!", "post", "!", INT, None, ["(if (call ops::RangeInclusive::contains (rangei (lit 0 i64) (lit ?k i64)) (a)) (seq (let ?m (lit 1 i64)) (for (bind ?i) (rangei (lit 2 usize) (cast i64 usize (a))) (setop mul i64 (var ?m) (cast usize i64 (var ?i)))) (Ok (I (var ?m)))) (Ok %s))" % NV("(call Ast.gamma (op add f64 (fa) (lit 1.0 f64)))"),
                                       "(if (call ops::RangeInclusive::contains (rangei (lit 0 i64) (lit ?k i64)) (a)) (seq (let ?m (lit 1 i64)) (for (bind ?i) (rangei (lit 2 i64) (a)) (setop mul i64 (var ?m) (var ?i))) (Ok (I (var ?m)))) (Ok %s))" % NV("(call Ast.gamma (op add f64 (fa) (lit 1.0 f64)))")],
       "C09 n! for an Integer 0 <= n <= 20 is the Integer product 2*..*n")
    for name, mth in (("floor(", "floor"), ("ceil(", "ceil"), ("round(", "round")):
        ob("I|%s" % name, "fn", name, INT, None, ["(Ok (I (a)))"], "C09 rounding an Integer returns it")
        R = "(call f64::%s (a))" % mth
        ob("F|%s" % name, "fn", name, FLT, None, ["(if _ (Ok (I (cast f64 i64 %s))) (Ok %s))" % (R, NV(R)), "(if _ (Ok %s) (Ok (I (cast f64 i64 %s))))" % (NV(R), R), "(Ok (N %s))" % R],
           "C09 floor/ceil/round of a Float: the rounded value itself, as Integer when it fits (guard checked separately)")
    ob("I|trunc(", "fn", "trunc(", INT, None, ["(Ok (I (a)))"], "C09 trunc of an Integer")
    ob("F|trunc(", "fn", "trunc(", FLT, None, ["(Ok (N (call f64::trunc (a))))", "(if _ (Ok (I (cast f64 i64 (call f64::trunc (a))))) (Ok %s))" % NV("(call f64::trunc (a))"), "(if _ (Ok %s) (Ok (I (cast f64 i64 (call f64::trunc (a))))))" % NV("(call f64::trunc (a))")], "C09 trunc of a Float")
    # premise: Number::from(f64) (the `N` wrapper above) preserves the numeric value  (C18)
    from .c18 import from_f64_ok
    okf, why, _ = from_f64_ok(F, m)
    run.ob(okf, "number-from", "C09 premise: Number::from(f64) keeps the numeric value (Integer only for integral doubles in [-2^63, 2^63))", "eval_number::number::Number::from(f64)", why)
    # premise: integer literals enter the tree exactly (Integer when they fit i64)  (C19)
    from ..scanners import check_literals
    check_literals(run, m, "C09 premise (literals):")
    # cast-guard rule over every arm
    ncast = 0
    for ctor, a in m.tb.eval_arms().items():
        ncast += cast_guard_rule(run, a["term"], "%s arm %s" % (W, ctor), "arm|%s" % ctor)
    run.coverage_extra["guarded_f64_to_i64_casts_in_eval"] = ncast
    # the statement is about expressions: their value is that of the standard tree (C04's tables as a premise)
    from .c04 import precedence_tables
    precedence_tables(run, F, {"eval_number": m}, PID)
    # `xⁿ` is `x^n` with an Integer exponent: the superscript run must be read completely and leave the rest of the input alone
    from .c13 import superscript_checks
    superscript_checks(run, F, {"eval_number": m}, "C09")
    report_issues(run, {"eval_number": m}, tables={"T_eval", "T_prim", "T_lex"})
    run.floor("obligations", run.obligations, 40)
    return run.finish("partial evaluation of each operator arm for every (Integer|Float) operand combination, residual tree compared with the reference; cast-guard rule with folded constants", "./check C09 --tier %s" % tier)
