"""C12 — juxtaposition means multiplication and binds tighter than explicit operators (DESIGN §5 C12)."""
from .. import spec, thir as T
from ..pat import M, parse as P, unify, subterms
from ..tables import show_tail, show_summary
from ..model import CUR
from .common import setup, report_issues, where

LEVEL = "proof"
PID = "C12"
EQ = "<Token as cmp::PartialEq>::eq"


def trigger_set(c):
    """OR-tree of `current == Token::X` / `matches!(current, Token::Y(_))` -> set of variants, or None."""
    if isinstance(c, tuple) and c and c[0] == "op" and c[1] == "or":
        a, b = trigger_set(c[3]), trigger_set(c[4])
        if a is None or b is None:
            return None
        return a | b
    e = M(("call", EQ, CUR, ("ctor", "?t")), c) or M(("call", EQ, ("ctor", "?t"), CUR), c)
    if e is not None and e["?t"].startswith("Token::"):
        return {e["?t"].split("::")[1]}
    if isinstance(c, tuple) and c and c[0] == "match" and unify(CUR, c[1]) is not None:
        out = set()
        for arm in c[2:]:
            if len(arm) != 2:
                return None
            p, v = arm
            if v == ("lit", "true", "bool"):
                ps = [p] if not (isinstance(p, tuple) and p[0] == "por") else list(p[1:])
                for q in ps:
                    if isinstance(q, tuple) and q[0] == "pvar" and q[1].startswith("Token::"):
                        out.add(q[1].split("::")[1])
                    else:
                        return None
            elif v == ("lit", "false", "bool"):
                continue
            else:
                return None
        return out
    return None


def implicit_trigger(m):
    """The set of token variants that start an implicit product (None: shape not recognised)."""
    f = m.tb.fn("::parser::Parser::implicit_multiply")
    if f is None:
        return None
    nodep = ("param", T.param_ids(f)[1][1])
    evs_, tail = m.summary("implicit_multiply")
    cond = None
    if len(evs_) == 1 and evs_[0][0] == "cond" and tail == ("ok", nodep) and evs_[0][3] == ([], ("val", ("unit",))):
        cond = evs_[0][1]
    elif not evs_ and tail[0] == "if":
        cond = tail[1]
    return trigger_set(cond) if cond is not None else None


def main(tier):
    run, F, models = setup(PID, tier, LEVEL)
    run.trusted = ["precedence-climbing schema (C04)"]
    run.assumptions = ["literal directly followed by a literal (e.g. '.5.5', complex 'ii') is neither granted nor forbidden by the statement; that one cell is left unconstrained"]
    if F is None:
        return run.finish("table comparison", "./check C12 --tier %s" % tier)
    for ev, m in models.items():
        f = m.tb.fn("::parser::Parser::implicit_multiply")
        if f is None:
            run.ob(False, "anchor|%s" % ev, "C12 anchor", ev, "implicit_multiply not found")
            continue
        nodep = ("param", T.param_ids(f)[1][1])
        s = m.summary("implicit_multiply")
        evs_, tail = s
        cond = then = els = None
        if len(evs_) == 1 and evs_[0][0] == "cond" and tail == ("ok", nodep) and evs_[0][3] == ([], ("val", ("unit",))):
            cond, then = evs_[0][1], evs_[0][2]
        elif not evs_ and tail[0] == "if":
            cond, then, els = tail[1], tail[2], tail[3]
            et = els[1]
            while et[0] == "ret":
                et = et[1]
            if els[0] != [] or et != ("ok", nodep):
                then = None
        if then is None:
            run.ob(False, "impl-shape|%s" % ev, "C12 implicit_multiply is `if trigger { Ok(node * rhs) } else { Ok(node) }`", where(m, "::parser::Parser::implicit_multiply"), "UNRECOGNISED: " + show_summary(s)[:400])
            continue
        trig = trigger_set(cond)
        if trig is None:
            run.ob(False, "trigger|%s" % ev, "C12 trigger predicate is a disjunction of token tests", where(m, "::parser::Parser::implicit_multiply"), "UNRECOGNISED predicate " + T.show(cond)[:300])
            continue
        must = {"ExplicitFunction", "Num"}
        for s_ in ("(", "⌊", "⌈"):
            if ev in spec.SINGLE_CHAR_TOKENS[s_]:
                must.add(m.tokvar(s_))
        run.ob(must <= trig, "trigger-has|%s" % ev, "C12 an opening bracket, a function name and (after a group/call/factorial) a number start an implicit product",
               where(m, "::parser::Parser::implicit_multiply"), "trigger set %s lacks %s" % (sorted(trig), sorted(must - trig)), sample={"evaluator": ev, "trigger_set": sorted(trig)})
        run.ob(trig <= must, "trigger-only|%s" % ev, "C12 constants, @, superscripts, ° and rad, operators and closers never start an implicit product",
               where(m, "::parser::Parser::implicit_multiply"), "trigger set contains %s" % sorted(trig - must))
        tevs, ttail = then
        while ttail[0] == "ret":
            ttail = ttail[1]
        okrhs = len(tevs) == 1 and tevs[0][0] == "ast" and tevs[0][-1] == "tried"
        lvl = tevs[0][1] if okrhs else None
        run.ob(okrhs and lvl == "Multiplicative", "rhs-level|%s" % ev, "C12 right factor is parsed at level Multiplicative (absorbs ^, superscripts and ! only)",
               where(m, "::parser::Parser::implicit_multiply"), "rhs effects %s" % [x[:2] for x in tevs], sample={"evaluator": ev, "rhs_level": lvl})
        e = M(("ctor", "?n", nodep, ("R1",)), ttail[1]) if ttail[0] == "ok" else None
        star = m.bin().get(m.tokvar("*"))
        star_ctor = None
        if star is not None and star[1][1][0] == "ok":
            e2 = M(("ctor", "?n", "_", "_"), star[1][1][1])
            star_ctor = e2["?n"] if e2 else None
        run.ob(e is not None and e["?n"] == star_ctor, "product-node|%s" % ev, "C12 the product is the node `*` builds, with (left factor, right factor) in that order",
               where(m, "::parser::Parser::implicit_multiply"), "builds %s; `*` builds %s" % (show_tail(ttail)[:120], star_ctor))
        # call sites
        pr, bn = m.prim(), m.bin()
        sites = set()
        for tv, (pat, (e_, t_)) in list(pr.items()):
            if t_[0] == "tailcall" and t_[1][0] == "impl":
                sites.add(("prim", tv))
            if t_[0] == "tailcall" and t_[1][0] == "encl":
                sites.add(("prim-bracket", tv))
        for tv, (pat, (e_, t_)) in list(bn.items()):
            if t_[0] == "tailcall" and t_[1][0] == "impl":
                sites.add(("bin", tv))
        want = {("prim", "Num"), ("prim", "ExplicitFunction")}
        for s_ in ("(", "⌊", "⌈"):
            if ev in spec.SINGLE_CHAR_TOKENS[s_]:
                want.add(("prim-bracket", m.tokvar(s_)))
        if ev in spec.POSTFIX_OPS["!"][1]:
            want.add(("bin", m.tokvar("!")))
        run.ob(sites == want, "call-sites|%s" % ev, "C12 the implicit-product hook follows exactly: a number, a bracketed group, a function call, a factorial",
               where(m, "::parser::Parser::parse_number"), "hook after %s, expected after %s" % (sorted(map(str, sites)), sorted(map(str, want))), sample={"evaluator": ev, "hook_sites": sorted(map(str, sites))})
        # ... and nowhere else: the bracket helper and the hook never run in the *middle* of an arm (a function argument parsed by the
        # bracket helper would swallow the factor that follows the call: f(x)(y) read as f(x*(y)))
        inner = []

        def scan_events(x, tv):
            if isinstance(x, list):
                for it in x:
                    if isinstance(it, tuple) and it and it[0] in ("encl", "impl"):
                        inner.append((tv, it[0]))
                    scan_events(it, tv)
            elif isinstance(x, tuple):
                if x and x[0] == "tailcall":
                    return
                for it in x:
                    scan_events(it, tv)
        for tv, (pat, summ) in list(pr.items()) + list(bn.items()):
            scan_events(summ, tv)
        run.ob(not inner, "hook-inside|%s" % ev, "C12 the bracket helper / implicit-product hook is only ever an arm's final step (it never parses a function argument or an operand in the middle of an arm)",
               where(m, "::parser::Parser::parse_number"), "used inside the arm of %s" % sorted(set(map(str, inner)))[:6], sample={"evaluator": ev, "inner_uses": 0})
        # arms that must not hook: constants, @, superscript, °, rad  (they end with Ok(..) after consuming one token)
        for s_ in ("pi", "e", "@"):
            if s_ in ("pi", "e") and ev not in spec.CONSTANTS[s_]:
                continue
            tv = m.tokvar(s_)
            arm = pr.get(tv)
            oka = arm is not None and [x[0] for x in arm[1][0]] == ["next"] and arm[1][1][0] == "ok"
            run.ob(oka, "no-hook|%s|%s" % (ev, s_), "C12 constants and @ neither start nor continue an implicit product", where(m, "::parser::Parser::parse_number"), "%r arm: %s" % (s_, show_summary(arm[1])[:160] if arm else None))
        # premise: generate_ast(level) parses at exactly the level it is given (the climbing schema of C04)
        okg, whyg = m.generate_ast_shape()
        run.ob(okg, "climb|%s" % ev, "C12 premise: generate_ast(level) climbs from exactly the level it is given (so the right factor's extent does not depend on the enclosing operator)", where(m, "::parser::Parser::generate_ast"), whyg)
        # callers of implicit_multiply (call graph)
        edges, _, _ = F.callgraph()
        role_of = {g_.path: r_ for r_, g_ in m.tb.roles().items()}
        m.prim(), m.bin(), m.summary("get_enclosed_elements_with_impl_mult")
        helpers = {p_ for p_ in getattr(m.tb, "_inlined_paths", set()) if "::parser::Parser::" in (F.by_path[p_].key if p_ in F.by_path else "")}
        callers = sorted(role_of.get(g.path, "(helper)" if g.path in helpers else g.short) for g in F.fns if f.path in edges.get(g.path, ()) and g.evaluator == ev)
        allowed = {"parse_number", "get_enclosed_elements_with_impl_mult", "convert_token_to_node", "(helper)"}
        run.ob(set(callers) <= allowed, "callers|%s" % ev, "C12 the hook is invoked only at primary level (before control returns to any climbing loop)", f.key, "callers %s" % callers)
    report_issues(run, models, tables={"T_prim", "T_loop", "T_lex"})
    run.floor("evaluators analysed", len(models), 5)
    run.floor("obligations", run.obligations, 40)
    return run.finish("implicit-product tables: trigger set (both inclusions), rhs level, node shape, hook call sites, callers", "./check C12 --tier %s" % tier)
