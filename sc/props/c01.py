"""C01 — no input makes any evaluator panic or abort (DESIGN §5 C01).
Panic-edge census over the MIR of every function reachable from the five entry points, in
both overflow-check configurations; edges are discharged only by the enumerated arguments
(constant condition, recognised THIR schema with its premises).  Thorough tier: all 31
feature subsets and the static stack bound."""
import itertools
from collections import Counter, defaultdict
from .. import extract, thir as T
from ..facts import Facts
from ..model import Model
from ..report import Run
from ..panics import mir_edges, edge_key
from ..justify import justifications, comparator_total
from ..pat import subterms

LEVEL = "proof"
PID = "C01"


def short(f):
    return f.key.replace("parser::Parser::", "").replace("tokenizer::Tokenizer", "Tokenizer")


def census(run, doc, cfgname, quiet_samples=False):
    F = Facts(doc)
    models = {ev: Model(F, ev) for ev in F.evaluators_present()}
    from .common import canon_categories
    canon_categories(F, models)
    J, rec = justifications(F, models)
    reach = F.scope()
    n_edges = n_dis = n_const = 0
    unclassified = Counter()
    for f in F.fns:
        if f.path not in reach or not f.mir:
            continue
        edges, const_dis, unc, sorts = mir_edges(F, f)
        n_const += len(const_dis)
        for u in unc:
            unclassified[u] += 1
        by = defaultdict(list)
        for e in edges:
            by[edge_key(e)].append(e)
        just = J.get(f.path, Counter())
        for k, es in sorted(by.items()):
            n_edges += len(es)
            allowed = just.get(k, 0)
            extra = len(es) - allowed
            n_dis += min(len(es), allowed)
            key = "panic|%s|%s|%s" % (short(f), k[0], k[1])
            if extra > 0:
                lines = sorted(e["line"] for e in es)
                why = es[0].get("why") or ""
                run.ob(False, key, "C01-a no undischarged panic edge on a path reachable from an entry point",
                       "%s (%s) lines %s [%s]" % (f.key, f.file, lines, cfgname),
                       "%d edge(s) of kind %s %s, %d justified by a recognised schema -> %d stand. %s" % (len(es), k[0], k[1], allowed, extra, why))
            else:
                run.ob(True, key + "|" + cfgname, "C01-a", f.key, distinct=key,
                       sample=None if quiet_samples else {"fn": short(f), "edge": "%s %s" % k, "count": len(es), "discharged_by": [r.get("schema") for r in rec if (r.get("fn") == f.key or r.get("ctor"))][:3], "config": cfgname})
        # sort comparators must be total (std may panic on an inconsistent order)
        if sorts:
            ev = f.evaluator
            m = models.get(ev)
            t = None
            if m is not None and f.thir:
                if f.kind == "Closure":
                    t = None
                else:
                    t = m.tb.fn_term(f, inline_pure=True)
            found = []
            if t is not None:
                for s in subterms(t):
                    if isinstance(s, tuple) and len(s) >= 3 and s[0] == "call" and isinstance(s[1], str) and s[1].startswith("[T]::sort") or (isinstance(s, tuple) and len(s) >= 3 and s[0] == "call" and isinstance(s[1], str) and "binary_search_by" in s[1]):
                        found.append(s)
            if len(found) != len(sorts):
                run.ob(False, "sort|%s|unmatched" % short(f), "C01-a every sort call has a recognised comparator", f.key, "%d sort calls in MIR, %d recognised in THIR" % (len(sorts), len(found)))
            for s in found:
                if len(s) == 3:
                    run.ob(False, "sort|%s|%s" % (short(f), s[1]), "C01-a comparator-less sort needs Ord (not recognised here)", f.key, T.show(s)[:120])
                    continue
                ok, why = comparator_total(s[3])
                run.ob(ok, "sort|%s|comparator" % short(f), "C01-a sort comparator is a total order (std may panic otherwise)", "%s (%s) [%s]" % (f.key, f.file, cfgname), why,
                       distinct="sort|%s" % short(f), sample=None if quiet_samples else {"fn": short(f), "sort_comparator": why})
    run.ob(True, "census|%s" % cfgname, "C01-a", cfgname, sample={"config": cfgname, "reachable_fns": len(reach), "panic_edges": n_edges, "discharged_by_schema": n_dis, "discharged_by_constant_condition": n_const})
    return F, rec, unclassified, len(reach)


def main(tier):
    run = Run(PID, tier, LEVEL)
    run.trusted = ["callee classification table sc/panics.py (std, rust_decimal 1.43, num-complex 0.4.6): checked_*/try_* APIs and float functions do not panic",
                   "MisalignedPointer/NullPointer debug checks (unreachable in safe Rust)", "allocation failure / capacity overflow are out of scope for 256-character inputs",
                   "rust_decimal internals behind its checked_* API (e.g. Decimal::sqrt's circuit breaker)"]
    run.assumptions = ["stack: the bound is checked against the 8 MiB main-thread stack; the 2 MiB spawned-thread budget is a recorded known finding (dev profile)"]
    from ..canary import panic_canary
    panic_canary(run)
    recs = None
    configs = [(None, True), (None, False)]
    if tier == "thorough":
        fs = extract.ALL_FEATURES
        for n in range(1, len(fs)):
            for c in itertools.combinations(fs, n):
                configs.append((list(c), True))
                configs.append((list(c), False))
    from concurrent.futures import ThreadPoolExecutor

    def load(cfg):
        try:
            return cfg, extract.load(features=cfg[0], overflow=cfg[1]), None
        except extract.ExtractError as e:
            return cfg, None, str(e)
    with ThreadPoolExecutor(max_workers=8 if tier == "thorough" else 2) as ex:
        loaded = list(ex.map(load, configs))
    reach_n = 0
    unc_all = Counter()
    for i, (cfg, doc, err) in enumerate(loaded):
        name = extract.config_name(cfg[0], cfg[1], False)
        if err:
            run.fail_closed("fact extraction failed for %s" % name, err[-1200:])
            continue
        F, rec, unc, rn = census(run, doc, name, quiet_samples=(i >= 2))
        unc_all.update(unc)
        if i == 0:
            from ..premises import trait_impls, dep_features
            trait_impls(run, F, "C01")
            dep_features(run, "C01")
            recs = rec
            reach_n = rn
            run.floor("entry points", len(F.evaluators_present()), 5)
    run.floor("reachable functions (default config)", reach_n, 150)
    run.coverage_extra["configurations"] = len(configs)
    run.coverage_extra["discharge_arguments"] = (recs or [])[:60]
    run.coverage_extra["unclassified_callees"] = dict(unc_all)
    if unc_all:
        run.note("unclassified external callees (not an alarm; they degrade the level): %s" % dict(unc_all))
    import os
    if not (os.environ.get("SC_NO_STACK") and os.environ.get("SC_REPO")):
        from ..stack import stack_bound
        stack_bound(run)
    return run.finish("panic-edge census (MIR asserts + may-panic callees) over every function reachable from the entry points, per configuration; obligations = (function, edge kind) groups and sort comparators; distinct = distinct groups",
                      "./check C01 --tier %s" % tier, exhaustive=(tier == "thorough"))
