"""C04 — operator precedence, associativity and bracket overriding (DESIGN §5 C04).
All five parsers are instances of one precedence-climbing schema; the property is a
statement about the schema's parameter tables, which are extracted and compared."""
from .. import spec, thir as T
from ..pat import M, unify
from ..tables import category_order, show_tail
from ..model import ctor_name
from .common import setup, report_issues, where

LEVEL = "proof"
PID = "C04"
LEFT = ("param", None)


def leftparam(m):
    f = m.tb.fn("::parser::Parser::convert_token_to_node")
    ps = T.param_ids(f)
    return ("param", ps[1][1]) if f and len(ps) > 1 else ("param", "left_expr")


def main(tier):
    run, F, models = setup(PID, tier, LEVEL)
    run.trusted = ["rustc: derived PartialOrd on a field-less enum orders variants by declaration order",
                   "the recursive-descent schema itself (textbook precedence climbing); its parameter tables are what is checked"]
    if F is None:
        return run.finish("table comparison", "./check C04 --tier %s" % tier)
    # 0. "the value is that of evaluating the tree so obtained": eval is a structural recursion over that tree (an arm
    # that regroups its operand's tree -- (a^b)^c computed as a^(b*c) -- evaluates a different tree)
    from .c20 import tree_walk
    nuses = 0
    for ev, m in models.items():
        node = m.tb.adt("ast::Node")
        if node is None:
            run.ob(False, "anchor|%s" % ev, "C04 anchor", ev, "Node enum not found")
            continue
        ftypes = {v["name"]: [f["ty"] for f in v["fields"]] for v in node["variants"]}
        nuses += tree_walk(run, m, ev, m.tb.eval_arms(), ftypes, tag="C04 premise (tree walk):")
    run.floor("child uses inspected", nuses, 150)
    precedence_tables(run, F, models)
    report_issues(run, models, tables={"T_prec", "T_prim", "T_loop", "T_lex"})
    run.floor("evaluators analysed", len(models), 5)
    run.floor("obligations", run.obligations, 150)
    run.coverage_extra["derived_facts"] = ["Power < Negative => -2^2 = (-2)^2 = 4", "Negative < Functional => -3! = -(3!)", "rhs of ^ parsed at Power => only Negative/Functional items are absorbed: 2^3! = 2^(3!)",
                                           "rhs level = own level with strict `<` => equal-precedence operators group left to right, including ^"]
    return run.finish("per evaluator: token->category for every operator surface, climbing-loop shape, rhs level / node shape per operator, prefix/postfix/bracket arms; distinct = distinct (evaluator, table cell)",
                      "./check C04 --tier %s" % tier)


def precedence_tables(run, F, models, tag="C04"):
    """The parameter tables of the precedence-climbing schema (category order, token -> category, right-operand level,
    node shape, prefix / postfix / bracket arms).  C04 proper; a premise of the arithmetic properties (C05..C09), whose
    statements are about the value of *expressions*: that is the value of the standard tree only if the tree is standard."""
    P = "" if tag == "C04" else "%s premise (standard tree) " % tag
    # 1. category order
    order, derived, manual = category_order(F)
    want = [c for c in spec.CATEGORY_ORDER if ("eval_i64" in F.evaluators_present() or c not in spec.I64_ONLY_CATEGORIES)]
    run.ob(order == want, "category-order", P + "C04-1 OperatorCategory variants in declaration order = loosest..tightest",
           "utils::operator_category::OperatorCategory", "found %s, expected %s" % (order, want), sample={"category_order": order})
    run.ob(derived and not manual, "category-derive", P + "C04-1 ordering is the derived PartialOrd (no manual impl)",
           "utils::operator_category::OperatorCategory", "derived=%s manual impls=%s" % (derived, manual))
    rank = {c: i for i, c in enumerate(order or [])}
    for ev, m in models.items():
        prec = m.tb.prec_table()
        lp = leftparam(m)
        # 2. token -> category by surface symbol
        for surf, (cat, evs) in list(spec.BINARY_OPS.items()) + list(spec.POSTFIX_OPS.items()):
            if ev not in evs:
                continue
            tv = m.tokvar(surf)
            if tv is None:
                run.ob(False, "lex|%s|%s" % (ev, surf), P + "C04-2 operator is tokenised", where(m, "::tokenizer::Tokenizer"), "surface %r is not recognised as one token" % surf)
                continue
            tv0 = tv[0] if isinstance(tv, tuple) else tv
            got = m.tb.category_of(tv0)
            run.ob(got == cat, "category|%s|%s" % (ev, surf), P + "C04-2 token category = reference table",
                   where(m, "::token::Token::get_oper_prec"), "%r (Token::%s) has category %s, expected %s" % (surf, tv0, got, cat),
                   sample={"evaluator": ev, "operator": surf, "token": tv0, "category": got})
        for surf, evs in spec.NEUTRAL_SURFACES.items():
            if ev not in evs:
                continue
            tv = m.tokvar(surf)
            if tv is None:
                continue
            got = m.tb.category_of(tv)
            run.ob(got == "DefaultZero", "category|%s|%s" % (ev, surf), P + "C04-2 non-operator tokens have the loosest category",
                   where(m, "::token::Token::get_oper_prec"), "%r (Token::%s) has category %s, expected DefaultZero" % (surf, tv, got))
        for tv in ("Eof", "Num", "Comma", "RightParen"):
            got = m.tb.category_of(tv)
            run.ob(got == "DefaultZero", "category|%s|%s" % (ev, tv), P + "C04-2 non-operator tokens have the loosest category",
                   where(m, "::token::Token::get_oper_prec"), "Token::%s has category %s" % (tv, got))
        got = m.tb.category_of("Superscript")
        run.ob(got == spec.SUPERSCRIPT_CATEGORY, "category|%s|superscript" % ev, P + "C04-2 superscript exponents bind like ^", where(m, "::token::Token::get_oper_prec"), "Superscript has category %s" % got)
        got = m.tb.category_of("ExplicitFunction")
        run.ob(got == spec.FUNCTION_CATEGORY, "category|%s|function" % ev, P + "C04-2 function application binds tightest", where(m, "::token::Token::get_oper_prec"), "ExplicitFunction has category %s" % got)
        # 3. climbing loop
        ok, detail = m.generate_ast_shape()
        run.ob(ok, "climb|%s" % ev, P + "C04-3 generate_ast is the precedence-climbing schema with a strict `<`", where(m, "::parser::Parser::generate_ast"), detail,
               sample={"evaluator": ev, "generate_ast": detail})
        ok, detail, start = m.parse_shape()
        run.ob(ok and start == "DefaultZero", "parse-start|%s" % ev, P + "C04-7 parse() starts the climb at the loosest level", where(m, "::parser::Parser::parse"), detail or "starts at %s" % start)
        # 4. binary operators: rhs level = own category, node(left, right)
        b = m.bin()
        for surf, (cat, evs) in spec.BINARY_OPS.items():
            if ev not in evs:
                continue
            tv = m.tokvar(surf)
            if tv is None or tv not in b:
                run.ob(False, "bin-arm|%s|%s" % (ev, surf), P + "C04-4 binary operator has an arm in convert_token_to_node", where(m, "::parser::Parser::convert_token_to_node"), "no arm for %r (Token::%s)" % (surf, tv))
                continue
            pat, (evs_, tail) = b[tv]
            shape = [e[0:2] if e[0] == "ast" else e[0:1] for e in evs_]
            tried = all(e[-1] == "tried" for e in evs_)
            ok_shape = len(evs_) == 2 and evs_[0][0] == "next" and evs_[1][0] == "ast" and tried
            rhs = evs_[1][1] if ok_shape else None
            run.ob(ok_shape and rhs == m.tb.category_of(tv) and rhs == cat, "rhs-level|%s|%s" % (ev, surf),
                   P + "C04-4 right operand is parsed at the operator's own level (left associativity)", where(m, "::parser::Parser::convert_token_to_node"),
                   "%r: effects %s, rhs level %s, own category %s" % (surf, shape, rhs, m.tb.category_of(tv)),
                   sample={"evaluator": ev, "operator": surf, "rhs_level": rhs})
            e = None
            if tail[0] == "ok":
                e = M(("ctor", "?n", lp, ("R1",)), tail[1])
            run.ob(e is not None, "node-order|%s|%s" % (ev, surf), P + "C04-4 node is ctor(left, right) in that order", where(m, "::parser::Parser::convert_token_to_node"),
                   "%r builds %s" % (surf, show_tail(tail)[:160]))
        # 5. prefix and postfix operators
        pr = m.prim()
        for surf, neg in (("-", True), ("+", False)):
            tv = m.tokvar(surf)
            if tv not in pr:
                run.ob(False, "prefix|%s|%s" % (ev, surf), P + "C04-5 prefix sign is a primary", where(m, "::parser::Parser::parse_number"), "no parse_number arm for prefix %r" % surf)
                continue
            pat, (evs_, tail) = pr[tv]
            ok_shape = len(evs_) == 2 and evs_[0][0] == "next" and evs_[1][0] == "ast" and all(e[-1] == "tried" for e in evs_)
            lvl = evs_[1][1] if ok_shape else None
            run.ob(ok_shape and lvl == spec.PREFIX_LEVEL, "prefix-level|%s|%s" % (ev, surf), P + "C04-5 operand of a prefix sign is parsed at level Negative (tighter than ^, looser than !)",
                   where(m, "::parser::Parser::parse_number"), "prefix %r: effects %s" % (surf, [e[:2] for e in evs_]), sample={"evaluator": ev, "prefix": surf, "operand_level": lvl})
            if neg:
                e = M(("ctor", "?n", ("R1",)), tail[1]) if tail[0] == "ok" else None
                run.ob(e is not None, "prefix-node|%s|-" % ev, P + "C04-5 prefix minus wraps its operand in one unary node", where(m, "::parser::Parser::parse_number"), show_tail(tail)[:160])
            else:
                run.ob(tail == ("ok", ("R1",)), "prefix-node|%s|+" % ev, P + "C04-5 prefix plus returns its operand unchanged", where(m, "::parser::Parser::parse_number"), show_tail(tail)[:160])
        for surf, (cat, evs) in spec.POSTFIX_OPS.items():
            if ev not in evs:
                continue
            tv = m.tokvar(surf)
            if tv is None or tv not in b:
                run.ob(False, "postfix|%s|%s" % (ev, surf), P + "C04-5 postfix operator has an arm", where(m, "::parser::Parser::convert_token_to_node"), "no arm for %r" % surf)
                continue
            pat, (evs_, tail) = b[tv]
            ok_shape = len(evs_) == 1 and evs_[0][0] == "next" and evs_[0][-1] == "tried"
            if surf == "!":
                e = None
                if tail[0] == "tailcall" and tail[1][0] == "impl":
                    e = M(("ctor", "?n", lp), tail[1][1])
                ok2 = e is not None
            else:
                e = M(("ctor", "?n", lp, ("ctor", "?leaf", "?k")), tail[1]) if tail[0] == "ok" else None
                ok2 = e is not None
            run.ob(ok_shape and ok2, "postfix-shape|%s|%s" % (ev, surf), P + "C04-5 postfix operator consumes one token, takes no right operand and wraps the left operand",
                   where(m, "::parser::Parser::convert_token_to_node"), "%r: effects %s result %s" % (surf, [e_[:2] for e_ in evs_], show_tail(tail)[:160]))
        if "Superscript" in b:
            pat, (evs_, tail) = b["Superscript"]
            e = M(("pvar", "Token::Superscript", ("bind", "?b")), pat)
            ok_shape = len(evs_) == 1 and evs_[0][0] == "next" and evs_[0][-1] == "tried"
            e2 = M(("ctor", "?n", lp, ("ctor", "?leaf", ("var", e["?b"]))), tail[1]) if (e is not None and tail[0] == "ok") else None
            run.ob(ok_shape and e2 is not None, "postfix-shape|%s|superscript" % ev, P + "C04-5 superscript run builds pow(left, literal) with no right operand",
                   where(m, "::parser::Parser::convert_token_to_node"), "effects %s result %s" % ([e_[:2] for e_ in evs_], show_tail(tail)[:160]))
        else:
            run.ob(False, "postfix-shape|%s|superscript" % ev, P + "C04-5 superscript arm exists", where(m, "::parser::Parser::convert_token_to_node"), "no Superscript arm")
        # 5b. a constant or `@` is a leaf: its arm consumes that one token and parses nothing else (an `e^x` fast path in the
        # arm of `e` would group -e^2 and 2^e^2 behind the back of the climbing loop)
        for s_ in ("pi", "e", "@"):
            if s_ in ("pi", "e") and ev not in spec.CONSTANTS[s_]:
                continue
            tvc_ = m.tokvar(s_)
            arm_ = pr.get(tvc_)
            oka = arm_ is not None and [x[0] for x in arm_[1][0]] == ["next"] and arm_[1][1][0] == "ok"
            run.ob(oka, "leaf-primary|%s|%s" % (ev, s_), P + "C04-5 a constant / placeholder primary consumes exactly its own token and builds a leaf", where(m, "::parser::Parser::parse_number"),
                   "%r arm: effects %s" % (s_, [x[:2] for x in arm_[1][0]] if arm_ else None))
        # 5c. the hook that runs after an operand only ever starts an implicit product (C12 decides which tokens start one): a hook that
        # also swallows a superscript would bind x² tighter than a prefix sign
        from .c12 import implicit_trigger
        trg_ = implicit_trigger(m)
        run.ob(trg_ is not None, "post-operand-hook|%s" % ev, P + "C04-5 the post-operand hook is `if <token starts a factor> { node * rhs } else { node }` and nothing else", where(m, "::parser::Parser::implicit_multiply"),
               "UNRECOGNISED shape of implicit_multiply" if trg_ is None else "")
        # 6. brackets
        for opn, (cls, evs, wrap) in spec.BRACKETS.items():
            if ev not in evs:
                continue
            tvo, tvc = m.tokvar(opn), m.tokvar(cls)
            if tvo not in pr:
                run.ob(False, "bracket|%s|%s" % (ev, opn), P + "C04-6 bracket is a primary", where(m, "::parser::Parser::parse_number"), "no parse_number arm for %r" % opn)
                continue
            pat, (evs_, tail) = pr[tvo]
            ok_b = (not evs_) and tail[0] == "tailcall" and tail[1][0] == "encl"
            inner = tail[1][1] if ok_b else None
            endt = tail[1][2] if ok_b else None
            wr = tail[1][3] if ok_b else None
            okw = False
            if ok_b:
                if wrap == "identity":
                    okw = M("(lambda ((bind ?x)) (var ?x))", wr) is not None
                else:
                    okw = M("(lambda ((bind ?x)) (ctor ?n (var ?x)))", wr) is not None
            run.ob(ok_b and inner == "DefaultZero" and endt == tvc and okw, "bracket|%s|%s" % (ev, opn),
                   P + "C04-6 bracket restarts at the loosest level, is closed by its own closing token and wraps the inner tree only",
                   where(m, "::parser::Parser::parse_number"), "%r: inner level %s, closing Token::%s (expected %s), wrapper %s" % (opn, inner, endt, tvc, T.show(wr)[:120] if wr else None),
                   sample={"evaluator": ev, "bracket": opn + cls, "inner_level": inner})
        s = m.summary("get_enclosed_elements_with_impl_mult")
        if s is not None:
            evs_, tail = s
            shape = [(e[0], e[1]) if len(e) > 2 else (e[0],) for e in evs_]
            fe_ = m.tb.fn("::parser::Parser::get_enclosed_elements_with_impl_mult")
            if m.tb._cache.get("encl_fixed_cat"):      # no level parameter: the level is a constant of the helper (the bracket rows above check which)
                want = [("next",), ("ast", shape[1][1] if len(shape) > 1 and not shape[1][1].startswith(("param:", "?")) else None), ("check", "param:%s" % m._param_name(fe_, 1))]
            else:
                want = [("next",), ("ast", "param:%s" % m._param_name(fe_, 1)), ("check", "param:%s" % m._param_name(fe_, 2))]
            ok_e = shape == want and all(e[-1] == "tried" for e in evs_) \
                and tail[0] == "tailcall" and tail[1][0] == "impl" and M("(icall (param ?g) (R1))", tail[1][1]) is not None
            run.ob(ok_e, "enclosed|%s" % ev, P + "C04-6 bracket helper: consume opener, parse inner at the given level, require the given closer, wrap",
                   where(m, "::parser::Parser::get_enclosed_elements_with_impl_mult"), "effects %s then %s" % (shape, show_tail(tail)[:120]))
