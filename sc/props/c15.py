"""C15 — the five evaluators agree on their common sub-language (DESIGN §5 C15).
Sibling cross-check of extracted tables: syntax tables across all evaluators; number<->i64 on integer
operators (same checked operation, Integer-wrapped); number<->f64 on every branch with a Float operand
(same term after erasing the Number wrappers).  complex/decimal<->f64: routing only (1e-9 clauses declined)."""
import re
from .. import spec, thir as T, chain
from ..pat import M, parse as P, unify, subterms
from ..tables import show_summary
from ..spec_terms import TABLES, F64_UNARY
from .common import setup, report_issues, where
from .c09 import canon, INT, FLT, NV
from .c10 import strip_num

LEVEL = "proof"
PID = "C15"


def erase(s):
    s = re.sub(r"Node::\w+", "Node::_", s)   # constructor names are evaluator-private; their meaning is compared through the chain (C10 / items 2-4)
    s = re.sub(r"\b[bmvh]\d+\b", "x", s)
    s = re.sub(r"\(field \(param self\) (?!current_token\)|previous_token\)|tokenizer\))\w+\)", "(field (param self) _)", s)   # private field names (the placeholder) are per evaluator
    s = re.sub(r"\(lit [^ ()]+ [a-z0-9]+\)", "(k)", s)
    s = re.sub(r"\(const [^()]*\)", "(k)", s)
    s = re.sub(r"\(call (Complex|Decimal)::new \(k\) \(k\)\)", "(k)", s)
    s = re.sub(r"\(ctor Number::(Float|Integer) \(k\)\)", "(k)", s)
    return s


def main(tier):
    run, F, models = setup(PID, tier, LEVEL)
    run.trusted = ["under the statement's restriction (finite, |x| < 2^53, no negative zero) exact integer steps and double steps coincide"]
    run.assumptions = ["declined: 1e-9 agreement of eval_complex / eval_decimal with eval_f64 (numerical); only the routing (same-named operation) is compared"]
    if F is None:
        return run.finish("sibling comparison", "./check C15 --tier %s" % tier)
    evs = list(models)
    # 1. syntax agreement on the shared vocabulary (type-erased arm summaries)
    ref = {}
    for ev in evs:
        m = models[ev]
        for tblname, tbl in (("prim", m.prim()), ("bin", m.bin())):
            for s in sorted(spec.all_surfaces() | {"-", "+"}):
                if s in spec.FUNCTIONS:
                    continue
                tv = m.tokvar(s)
                if tv is None or tv not in tbl:
                    continue
                txt = erase(show_summary(tbl[tv][1]))
                key = (tblname, s)
                if key in ref:
                    rev, rtxt = ref[key]
                    run.ob(txt == rtxt, "syntax|%s|%s|%s" % (tblname, s, ev), "C15 parser arm for a shared symbol is the same in every evaluator (after erasing the value type)",
                           "%s vs %s, %s arm %r" % (ev, rev, tblname, s), "%s\n   vs\n%s" % (txt[:200], rtxt[:200]), sample={"symbol": s, "table": tblname, "agree": [rev, ev]} if len(run.samples) < 4 else None)
                else:
                    ref[key] = (ev, txt)
        # function arms: arity/shape by name
        arms, after = m.prim_functions()
        for name in sorted(spec.FUNCTIONS):
            tv = m.tokvar(name)
            if not isinstance(tv, tuple) or tv[1] not in arms:
                continue
            txt = erase(show_summary(arms[tv[1]]))
            key = ("fn", name)
            if key in ref:
                rev, rtxt = ref[key]
                run.ob(txt == rtxt, "syntax|fn|%s|%s" % (name, ev), "C15 parser arm for a shared function is the same in every evaluator", "%s vs %s, function %r" % (ev, rev, name), "%s vs %s" % (txt[:160], rtxt[:160]))
            else:
                ref[key] = (ev, txt)
    # 1b. token categories of shared symbols agree across evaluators
    cats = {}
    for ev in evs:
        m = models[ev]
        for s_ in sorted(list(spec.BINARY_OPS) + list(spec.POSTFIX_OPS) + list(spec.NEUTRAL_SURFACES)) + ["SUPERSCRIPT", "FUNCTION"]:
            if s_ == "SUPERSCRIPT":
                c_ = m.tb.category_of("Superscript")
            elif s_ == "FUNCTION":
                c_ = m.tb.category_of("ExplicitFunction")
            else:
                tv = m.tokvar(s_)
                if tv is None:
                    continue
                c_ = m.tb.category_of(tv[0] if isinstance(tv, tuple) else tv)
            if s_ in cats:
                rev, rc = cats[s_]
                run.ob(c_ == rc, "syntax|category|%s|%s" % (s_, ev), "C15 a shared symbol has the same precedence category in every evaluator", "%s vs %s: %r" % (ev, rev, s_), "%s vs %s" % (c_, rc))
            else:
                cats[s_] = (ev, c_)
    # 2. number <-> i64
    if "eval_number" in models and "eval_i64" in models:
        mn, mi = models["eval_number"], models["eval_i64"]
        W = where(mn, "::ast::eval")
        for surf in ("+", "-", "*", "^"):
            rn, _ = chain.binary_chain(mn, surf)
            ri, _ = chain.binary_chain(mi, surf)
            ok = False
            d = ""
            if rn and ri:
                tn = canon(chain.peval(rn[1], {("ev", ("A0",)): INT("a"), ("ev", ("A1",)): INT("b")}))
                ops_n = [s for s in subterms(tn) if isinstance(s, tuple) and len(s) == 4 and s[0] == "call" and s[1].startswith("i64::checked_")]
                e = M(("lift", ("call", "?op", ("ev", ("A0",)), "?b")), ri[1])
                d = "number uses %s, i64 uses %s" % ([o[1] for o in ops_n], e["?op"] if e else None)
                if e and len(ops_n) == 1 and ops_n[0][1] == e["?op"] and ops_n[0][2] == ("a",):
                    # the Some branch wraps the result in Integer
                    ok = any(M(("match", ops_n[0], (("pvar", "Option::Some", ("bind", "?s")), ("Ok", ("I", ("var", "?s")))), "..."), s) is not None for s in subterms(tn))
            if not ok and surf == "^" and rn and ri and e and e["?op"] == "i64::checked_pow":
                # the same statement read off the decision table of the arm (sc/props/c09.py: int_pow_table): for every exponent in
                # 0..=u32::MAX, `a.checked_pow(b)` = Some(p) yields Integer(p)
                from .c09 import int_pow_table
                tb_ = int_pow_table(T.alpha(tn))
                ok = tb_ is not None and (True, "exact") in tb_["u32"] and all(k_[1] != "exact" for k_ in tb_["u32"] if not k_[0])
            run.ob(ok, "int|%s" % surf, "C15 eval_i64 = Ok(v) => eval_number = Integer(v): same checked operation, same operand order, Integer-wrapped", "%s %r" % (W, surf), d,
                   sample={"operator": surf, "both_use": d})
        for kind, surf, pn, pi_ in (("bin", "%", "(if (op eq i64 (b) (lit 0 i64)) _ (Ok (I (call i64::wrapping_rem (a) (b)))))", "(if (op eq i64 (ev (A1)) (lit 0 i64)) (Err) (Ok (call i64::wrapping_rem (ev (A0)) (ev (A1)))))"),
                                     ("pre", "-", "(match (call (| i64::checked_neg i64::checked_sub) ...) ((pvar Option::Some (bind ?s)) (Ok (I (var ?s)))) _)", "(lift (call (| i64::checked_neg i64::checked_sub) ...))"),
                                     ("fn", "abs(", "(match (call i64::checked_abs (a)) ((pvar Option::Some (bind ?s)) (Ok (I (var ?s)))) _)", "(lift (call i64::checked_abs (ev (A0))))"),
                                     ("fn", "sgn(", "(Ok (I (call i64::signum (a))))", "(Ok (call i64::signum (ev (A0))))")):
            fn = {"bin": chain.binary_chain, "pre": chain.prefix_chain, "fn": chain.function_chain}[kind]
            rn, _ = fn(mn, surf)
            ri, _ = fn(mi, surf)
            ok = False
            if rn and ri:
                tn = canon(chain.peval(rn[1], {("ev", ("A0",)): INT("a"), ("ev", ("A1",)): INT("b")}))
                ok = M(pn, tn) is not None and M(pi_, ri[1]) is not None
            run.ob(ok, "int|%s" % surf, "C15 eval_number's Integer branch computes what eval_i64 computes", "%s %r" % (W, surf), "number: %s ; i64: %s" % (T.show(tn)[:160] if rn else None, T.show(ri[1])[:160] if ri else None))
        # exact division: Integer(a / b) guarded by remainder 0  vs  checked_div (truncating): equal whenever the division is exact
        rn, _ = chain.binary_chain(mn, "/")
        tn = canon(chain.peval(rn[1], {("ev", ("A0",)): INT("a"), ("ev", ("A1",)): INT("b")})) if rn else None
        ri, _ = chain.binary_chain(mi, "/")
        ok = tn is not None and ri is not None and any(s == ("I", ("op", "div", "i64", ("a",), ("b",))) for s in subterms(tn)) and M("(lift (call i64::checked_div (ev (A0)) (ev (A1))))", ri[1]) is not None
        run.ob(ok, "int|/", "C15 exact Integer division yields the quotient eval_i64 yields", "%s '/'" % W, T.show(tn)[:200] if tn else "")
    # 3. number <-> f64
    if "eval_number" in models and "eval_f64" in models:
        mn, mf = models["eval_number"], models["eval_f64"]
        W = where(mn, "::ast::eval")
        cases = [("bin", s) for s in "+-*/%^"] + [("pre", "-")] + [("fn", s) for s in sorted(TABLES["eval_f64"]) if s[0] == "fn" for s in [s[1]]]
        seen = set()
        for kind, s in cases:
            if (kind, s) in seen:
                continue
            seen.add((kind, s))
            fn = {"bin": chain.binary_chain, "pre": chain.prefix_chain, "fn": chain.function_chain}[kind]
            rn, _ = fn(mn, s)
            rf, _ = fn(mf, s)
            if rn is None or rf is None:
                continue
            two = any(("A1",) == x for x in subterms(rf[1]))
            combos = [(FLT, FLT, "FF")] + ([(INT, FLT, "IF"), (FLT, INT, "FI")] if two else [])
            for va, vb, tag in combos:
                tn = canon(chain.peval(rn[1], {("ev", ("A0",)): va("a"), ("ev", ("A1",)): vb("b")}))
                tf = chain.subst_sym(rf[1], {("ev", ("A0",)): ("a",) if va is FLT else ("fa",), ("ev", ("A1",)): ("b",) if vb is FLT else ("fb",)})
                val = strip_num(tn)
                ok = val == tf
                if not ok and s in ("floor(", "ceil(", "round(", "trunc(", "truncate("):
                    R = tf[1] if tf[0] == "Ok" else None
                    ok = R is not None and (M(("if", "_", ("Ok", ("I", ("cast", "f64", "i64", R))), ("Ok", ("|", ("F", R), ("N", R)))), tn) is not None or M(("if", "_", ("Ok", ("|", ("F", R), ("N", R))), ("Ok", ("I", ("cast", "f64", "i64", R)))), tn) is not None or tn == ("Ok", ("N", R)))
                if not ok and s in ("sgn(", "sign(", "signum("):
                    ok = M("(if (op gt f64 (a) (lit 0.0 f64)) (Ok (I (lit 1 i64))) (if (op eq f64 (a) (lit 0.0 f64)) (Ok (I (lit 0 i64))) (Ok (I (lit -1 i64)))))", tn) is not None and \
                        M("(if (op eq f64 (a) (lit 0.0 f64)) (Ok (lit 0.0 f64)) (Ok (call f64::signum (a))))", tf) is not None
                run.ob(ok, "float|%s|%s|%s" % (kind, s, tag), "C15 with a Float operand eval_number's numeric value is eval_f64's operation on the operands' double values",
                       "%s %r (%s)" % (W, s, tag), "number: %s ; f64: %s" % (T.show(val)[:160], T.show(tf)[:160]), sample={"surface": s, "operands": tag, "term": T.show(tf)[:100]} if len(run.samples) < 10 else None)
    # 3a'. x! with a Float operand: eval_number's arm, with its Float / Number::from wrappers removed, is eval_f64's arm on the operand's
    # double value for every non-negative operand and every non-integer (negative whole numbers are outside the comparison: eval_f64
    # answers NaN there, which is not a finite value)
    if "eval_number" in models and "eval_f64" in models:
        rn_, _ = chain.postfix_chain(models["eval_number"], "!")
        rf_, _ = chain.postfix_chain(models["eval_f64"], "!")
        okf, dn = False, ""
        if rn_ and rf_:
            def unwrap(x):
                if isinstance(x, tuple):
                    if len(x) == 2 and x[0] in ("F", "N"):
                        return unwrap(x[1])
                    return tuple(unwrap(y) for y in x)
                return x

            def sub(x):
                if isinstance(x, tuple):
                    if x == ("ev", ("A0",)) or x == ("ev", ("C0",)):
                        return ("a",)
                    return tuple(sub(y) for y in x)
                return x
            tn_ = T.alpha(unwrap(canon(chain.peval(rn_[1], {("ev", ("A0",)): FLT("a")}))))
            tf_ = T.alpha(sub(rf_[1]))
            en = M(("if", ("op", "ge", "f64", ("a",), ("lit", "0.0", "f64")), "?nonneg", "?neg"), tn_)
            ef = M(("if", ("op", "ge", "f64", ("a",), ("lit", "0.0", "f64")), "?nonneg", ("if", "_", "_", "?negfrac")), tf_)
            okf = en is not None and ef is not None and en["?nonneg"] == ef["?nonneg"] and en["?neg"] == ef["?negfrac"]
            dn = "number: %s ; f64: %s" % (T.show(tn_)[:200], T.show(tf_)[:200])
        run.ob(okf, "float|post|!|F", "C15 x! of a Float in eval_number is eval_f64's x! on the same double (non-negative operands and non-integers)", "%s '!'" % where(models["eval_number"], "::ast::eval"), dn)
    # 3b. variadic min / max: the three evaluators with a shared integer / float grammar select with the minimum /
    # maximum of their own value type (eval_number: on the operands' double values, returning the operand itself) --
    # then min/max of the same arguments is the same number in all three
    from .c11 import minmax_fold, SURFACE
    for ev in ("eval_i64", "eval_f64", "eval_number"):
        if ev not in models:
            continue
        arms_ = models[ev].tb.eval_arms()
        for ctor in ("Min", "Max"):
            r_, err_ = chain.function_chain(models[ev], SURFACE[ctor])
            a_ = arms_.get(r_[0]) if r_ else None
            ok, detail = minmax_fold(ev, ctor, a_["term"]) if a_ else (False, "no arm (%s)" % err_)
            run.ob(ok, "agg|%s|%s" % (ev, ctor), "C15 %s selects the same argument in eval_i64, eval_f64 and eval_number: the %s of the arguments as numbers" % (ctor.lower(), "minimum" if ctor == "Min" else "maximum"),
                   where(models[ev], "::ast::eval") + " arm " + ctor, detail, sample={"evaluator": ev, "aggregate": ctor, "schema": detail[:100]} if ev == "eval_number" else None)
    # 3c. avg / med: each of the three is the mean / the median of its own value type (C11's schemas, reused) -- then they agree on
    # the shared grammar wherever eval_i64 is defined
    from .c11 import avg_fold, med_fold
    for ev in ("eval_i64", "eval_f64", "eval_number"):
        if ev not in models:
            continue
        arms_ = models[ev].tb.eval_arms()
        for ctor, fn_ in (("Avg", avg_fold), ("Med", med_fold)):
            r_, err_ = chain.function_chain(models[ev], SURFACE[ctor])
            a_ = arms_.get(r_[0]) if r_ else None
            ok, detail = fn_(ev, a_["term"]) if a_ else (False, "no arm (%s)" % err_)
            run.ob(ok, "agg|%s|%s" % (ev, ctor), "C15 %s is computed the same way in eval_i64, eval_f64 and eval_number: the %s of the arguments as numbers" % (SURFACE[ctor], "mean" if ctor == "Avg" else "median (sorted middle / mean of the two middle values)"),
                   where(models[ev], "::ast::eval") + " arm " + ctor, detail)
    # 4. complex / decimal <-> f64: same-named routing
    for ev in ("eval_complex", "eval_decimal"):
        if ev not in models or "eval_f64" not in models:
            continue
        for (kind, s), pats in sorted(TABLES[ev].items()):
            if kind != "fn" or s not in F64_UNARY or (ev == "eval_decimal" and s == "exp2("):
                continue
            r, _ = chain.function_chain(models[ev], s)
            rf, _ = chain.function_chain(models["eval_f64"], s)
            if r is None or rf is None:
                continue
            mn_ = [x[1] for x in subterms(r[1]) if isinstance(x, tuple) and len(x) > 2 and x[0] == "call" and isinstance(x[1], str)]
            mf_ = [x[1] for x in subterms(rf[1]) if isinstance(x, tuple) and len(x) > 2 and x[0] == "call" and isinstance(x[1], str)]
            base = lambda n: re.sub(r"^checked_", "", n.split("::")[-1])
            ok = bool(mn_) and bool(mf_) and (base(mf_[0]) in [base(x) for x in mn_] or (s == "abs(" and "norm" in [base(x) for x in mn_]))
            run.ob(ok, "routing|%s|%s" % (ev, s), "C15 the same name is routed to the same-named operation in both evaluators (numerical agreement trusted)", "%s vs eval_f64 %r" % (ev, s), "%s vs %s" % (mn_, mf_))
    from .common import check_chain
    for ev in ("eval_complex", "eval_decimal"):
        if ev in models:
            for (kind, s_) in sorted(TABLES[ev]):
                check_chain(run, models[ev], kind, s_, "C15", "C15 %s routes the operator/function to the operation of the same meaning as eval_f64 (numerical agreement trusted)" % ev)
    report_issues(run, models, tables={"T_eval", "T_prim", "T_lex", "T_loop"})
    run.floor("evaluators analysed", len(models), 5)
    run.floor("obligations", run.obligations, 250)
    return run.finish("sibling comparison of type-erased parser tables across the five evaluators; number<->i64 operation identity; number<->f64 term identity on every Float-operand branch; routing comparison for complex/decimal", "./check C15 --tier %s" % tier)
