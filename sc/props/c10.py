"""C10 — every documented function, alias and constant computes its mathematical meaning (DESIGN §5 C10).
Chain composition name -> token -> node -> operation for every (evaluator, name) of the vocabulary,
compared with the reference meaning; source constants checked numerically; sibling agreement of the
hand-written numerics (gamma, Lambert W, ilog).  Accuracy/convergence of those numerics is declined."""
import math, re
from .. import spec, thir as T, chain
from ..pat import M, parse as P, unify, subterms
from ..spec_terms import TABLES, PI_BITS, E_BITS, DEG, RAD, F64_UNARY
from .common import setup, report_issues, where, check_chain
from .c09 import canon, INT, FLT

LEVEL = "proof"
PID = "C10"


def strip_num(t):
    """numeric value of a Number-producing term: drop Float(..)/From(..) wrappers, read Integer operands as doubles"""
    if isinstance(t, tuple):
        if t and t[0] in ("F", "N") and len(t) == 2:
            return strip_num(t[1])
        return tuple(strip_num(x) for x in t)
    return t


def floats_in(t):
    out = []
    for s in subterms(t):
        e = M(("lit", "?v", "f64"), s)
        if e:
            try:
                out.append(float(e["?v"]))
            except ValueError:
                pass
    return out


def f64_consts_in(t):
    import struct
    out = []
    for s in subterms(t):
        e = M(("const", "?p", "?bits"), s)
        if e and e["?bits"] is not None and not str(e["?p"]).startswith(("core::num", "std::i64", "std::u32", "core::f64::<impl f64>::INFINITY")):
            try:
                out.append(struct.unpack("<d", struct.pack("<Q", int(e["?bits"])))[0])
            except (struct.error, ValueError):
                pass
    return out


def decimals_in(t):
    out = []
    for s in subterms(t):
        e = M(("call", "Decimal::new", ("lit", "?m", "i64"), ("lit", "?s", "u32")), s)
        if e:
            out.append(int(e["?m"]) / (10 ** int(e["?s"])))
    return out



def decimal_factorial_table(t, X, ONE, GAM):
    """Interpret the Factorial arm of eval_decimal on the five sign classes of its argument.  Conditions may compare x or
    x % 1 with zero (any comparison operator, negation, && and ||); a leaf is `gamma` (exactly gamma(x + 1), None -> Err),
    `err`, or `other` (the integer branch, whose content the integer rows of the meaning table decide)."""
    FRACS = [("try", ("lift", ("call", "Decimal::checked_rem", X, ONE))), ("call", "<Decimal as ops::Rem>::rem", X, ONE), ("call", "Decimal::fract", X)]
    ZEROS = [("const", "Decimal::ZERO", None), ("call", "Decimal::new", ("lit", "0", "i64"), ("lit", "0", "u32"))]
    states = {"neg-int": (-1, 0), "neg-frac": (-1, -1), "zero": (0, 0), "pos-int": (1, 0), "pos-frac": (1, 1)}

    class Unknown(Exception):
        pass

    def sgn(a, st):
        if a == X:
            return st[0]
        if a in FRACS:
            return st[1]
        if a in ZEROS:
            return 0
        raise Unknown()

    def cond(c, st):
        if isinstance(c, tuple) and c:
            if c[0] == "un" and c[1] == "not":
                return not cond(c[-1], st)
            if c[0] == "op" and len(c) == 5 and c[1] in ("and", "or"):
                l = cond(c[3], st)
                return (l and cond(c[4], st)) if c[1] == "and" else (l or cond(c[4], st))
            m_ = re.match(r"^<Decimal as cmp::Partial(?:Eq|Ord)>::(eq|ne|lt|le|gt|ge)$", c[1]) if c[0] == "call" and isinstance(c[1], str) and len(c) == 4 else None
            if m_:
                a, b = sgn(c[2], st), sgn(c[3], st)
                if a != 0 and b != 0:
                    raise Unknown()          # two non-zero quantities: their order is not a matter of sign
                return {"eq": a == b, "ne": a != b, "lt": a < b, "le": a <= b, "gt": a > b, "ge": a >= b}[m_.group(1)]
        raise Unknown()

    def leaf(x, st):
        while isinstance(x, tuple) and x and x[0] == "return" and len(x) == 2:
            x = x[1]
        if isinstance(x, tuple) and x and x[0] == "if" and len(x) == 4:
            try:
                return leaf(x[2] if cond(x[1], st) else x[3], st)
            except Unknown:
                return "other"
        if isinstance(x, tuple) and x and x[0] == "seq" and len(x) > 1 and isinstance(x[1], tuple) and x[1] and x[1][0] == "if" and len(x[1]) == 4 and x[1][3] == ("unit",):
            # guard clause: if c { return .. }; rest
            try:
                return leaf(x[1][2], st) if cond(x[1][1], st) else leaf(("seq",) + x[2:] if len(x) > 3 else x[2], st)
            except Unknown:
                return "other"
        if x == ("Err",):
            return "err"
        if M(GAM, x) is not None:
            return "gamma"
        return "other"
    return {k: leaf(t, st) for k, st in states.items()}

def main(tier):
    run, F, models = setup(PID, tier, LEVEL)
    run.trusted = ["std f64 methods, num_complex and rust_decimal functions compute the mathematical function of their name within the stated tolerance (library-backed rows)",
                   "i64 real-valued functions: `as f64` / `as i64` conversions (routing only)"]
    run.assumptions = ["declined: accuracy of the Lanczos gamma, convergence of the Lambert-W iteration, value of ilog, 'within 1' for eval_i64's real-valued functions (value-dependent numerics; only sibling agreement and structure are checked)"]
    if F is None:
        return run.finish("chain table", "./check C10 --tier %s" % tier)
    RULE = "C10 name -> token -> node -> operation equals the reference meaning (argument order included)"
    for ev, m in models.items():
        if ev in TABLES:
            for (kind, s) in sorted(TABLES[ev]):
                check_chain(run, m, kind, s, "C10", RULE)
        # every documented name of this evaluator must at least reach an eval arm (vocabulary completeness of the chain)
        for name, (arity, evs) in sorted(spec.FUNCTIONS.items()):
            if ev not in evs:
                continue
            r, err = chain.function_chain(m, name)
            run.ob(r is not None, "chain|%s|%s" % (ev, name), "C10 the documented name reaches an evaluation arm", "%s %r" % (ev, name), str(err))
        # constants
        for s, bits, dec in (("pi", PI_BITS, "Decimal::PI"), ("π", PI_BITS, "Decimal::PI"), ("e", E_BITS, "Decimal::E")):
            if ev not in spec.CONSTANTS[s]:
                continue
            r, err = chain.constant_chain(m, s)
            ok = False
            if r is not None:
                v = r[1]
                if ev == "eval_decimal":
                    ok = M(("const", dec, "_"), v) is not None
                elif ev == "eval_complex":
                    ok = M(("call", "Complex::new", ("const", "_", bits), ("lit", "0.0", "f64")), v) is not None
                elif ev == "eval_number":
                    ok = M(("ctor", "Number::Float", ("const", "_", bits)), v) is not None
                else:
                    ok = M(("const", "_", bits), v) is not None
            run.ob(ok, "constant|%s|%s" % (ev, s), "C10 pi / e are the library constants of the evaluator's type", where(m, "::parser::Parser::parse_number"), T.show(r[1])[:120] if r else err,
                   sample={"evaluator": ev, "constant": s} if s == "pi" else None)
        # degree / radian factors (a source constant, decided numerically)
        for s, want in (("°", DEG), ("rad", RAD)):
            if ev not in spec.POSTFIX_OPS[s][1]:
                continue
            r, err = chain.postfix_chain(m, s)
            lits = (floats_in(r[1]) + f64_consts_in(r[1])) if r else []
            lits = [x for x in lits if x not in (0.0,)]
            ok = False
            if r is not None and lits:
                k = lits[-1] if ev != "eval_number" else [x for x in lits if abs(x - want) < 1][:1]
                k = k if isinstance(k, float) else (k[0] if k else None)
                ok = k is not None and abs(k - want) <= 1e-9 * want
                # the product structure: left operand times the constant
                t = r[1]
                K = ("|", ("lit", "_", "f64"), ("const", "_", "_"))
                if ev == "eval_f64":
                    ok = ok and M(("Ok", ("op", "mul", "f64", ("ev", ("A0",)), K)), t) is not None
                elif ev == "eval_complex":
                    ok = ok and M(("Ok", ("call", "<Complex as ops::Mul>::mul", ("ev", ("A0",)), ("call", "Complex::new", K, ("lit", "0.0", "f64")))), t) is not None
            run.ob(ok, "factor|%s|%s" % (ev, s), "C10 x° = x*pi/180 and x rad = x*180/pi (constant within 1e-9 relative)", where(m, "::parser::Parser::convert_token_to_node"), "constant(s) %s, expected %r" % (lits, want),
                   sample={"evaluator": ev, "postfix": s, "constant": lits[-1] if lits else None})
    # eval_number: library-backed functions have the f64 meaning on the operands' double values
    if "eval_number" in models and "eval_f64" in models:
        m = models["eval_number"]
        ft = TABLES["eval_f64"]
        for (kind, s), pats in sorted(ft.items()):
            if kind != "fn" or s in ("abs(", "floor(", "ceil(", "round(", "trunc(", "truncate(", "sgn(", "sign(", "signum(", "pow(", "mod("):
                continue
            r, err = chain.function_chain(m, s)
            if r is None:
                run.ob(False, "meaning|eval_number|fn|%s" % s, RULE, "eval_number %r" % s, str(err))
                continue
            for va, vb, tag in ((FLT, FLT, "F"), (INT, INT, "I")):
                t = chain.peval(r[1], {("ev", ("A0",)): va("a"), ("ev", ("A1",)): vb("b")})
                t = strip_num(canon(t))
                t = chain.subst_sym(t, {("a",): ("ev", ("A0",)), ("b",): ("ev", ("A1",)), ("fa",): ("ev", ("A0",)), ("fb",): ("ev", ("A1",))})
                ok = any(unify(p, t) is not None for p in pats)
                run.ob(ok, "meaning|eval_number|fn|%s|%s" % (s, tag), "C10 eval_number: the function has the f64 meaning on the operands' double values", "%s (%r, %s operands)" % (where(m, "::ast::eval"), s, "Float" if tag == "F" else "Integer"),
                       "computes %s ; expected %s" % (T.show(t)[:200], T.show(pats[0])[:160]))
    if "eval_number" in models:
        from .c18 import from_f64_ok
        okf, why, _ = from_f64_ok(F, models["eval_number"])
        run.ob(okf, "number-from", "C10 premise: eval_number returns library results through Number::from(f64), which must keep the numeric value (exact integrality test, range [-2^63, 2^63))", "eval_number::number::Number::from(f64)", why)
    # factorial: integer branch is the product 2..=n (f64), non-integers go through gamma(x+1)
    if "eval_f64" in models:
        m = models["eval_f64"]
        r_, _ = chain.postfix_chain(m, "!")
        a = m.tb.eval_arms().get(r_[0]) if r_ else None
        X = ("ev", ("C0",))
        ok = False
        if a:
            e = M(("if", ("op", "ge", "f64", X, ("lit", "0.0", "f64")), ("if", ("op", "gt", "f64", ("op", "rem", "f64", X, ("lit", "1.0", "f64")), ("lit", "0.0", "f64")), ("Ok", ("call", "Ast.gamma", ("op", "add", "f64", X, ("lit", "1.0", "f64")))), "?int"), "?neg"), a["term"])
            if e:
                it = e["?int"]
                g = M(("if", ("op", "gt", "f64", X, ("lit", "?k", "f64")), ("Ok", ("const", "_", "_")), "?loop"), it)
                loop = g["?loop"] if g else it
                ok = M(("seq", ("let", "?m", ("lit", "1.0", "f64")), ("for", ("bind", "?i"), ("rangei", ("lit", "2", "usize"), ("cast", "f64", "usize", X)), ("setop", "mul", "f64", ("var", "?m"), ("cast", "usize", "f64", ("var", "?i")))), ("Ok", ("var", "?m"))), loop) is not None
        okneg = False
        if a:
            e = M(("if", ("op", "ge", "f64", X, ("lit", "0.0", "f64")), "_", ("if", ("op", "eq", "f64", ("op", "rem", "f64", X, ("lit", "1.0", "f64")), ("lit", "0.0", "f64")), "_", ("Ok", ("call", "Ast.gamma", ("op", "add", "f64", X, ("lit", "1.0", "f64")))))), a["term"])
            okneg = e is not None
        run.ob(okneg, "factorial-negative|eval_f64", "C10 x! for negative non-integer x is gamma(x+1)", "%s arm Factorial" % where(m, "::ast::eval"), T.show(a["term"])[:300] if a else "no arm")
        run.ob(ok, "factorial|eval_f64", "C10 x! : non-negative integers -> product 2*..*x; non-integers -> gamma(x+1)", "%s arm Factorial" % where(m, "::ast::eval"), T.show(a["term"])[:300] if a else "no arm")
    if "eval_number" in models:
        m = models["eval_number"]
        r_, _ = chain.postfix_chain(m, "!")
        if r_:
            G = lambda x: "(Ok (| (F (call Ast.gamma (op add f64 %s (lit 1.0 f64)))) (N (call Ast.gamma (op add f64 %s (lit 1.0 f64))))))" % (x, x)
            tF = T.alpha(canon(chain.peval(r_[1], {("ev", ("A0",)): FLT("a")})))
            # a whole non-negative Float is a factorial proper: the product 2*..*x (inf above 170), exactly as eval_f64 computes it;
            # every other Float is gamma(x+1).  (The pinned tree sent every Float through gamma: 5.0! = 119.99999999999969.)
            XA = ("a",)
            GA = ("Ok", ("|", ("F", ("call", "Ast.gamma", ("op", "add", "f64", XA, ("lit", "1.0", "f64")))), ("N", ("call", "Ast.gamma", ("op", "add", "f64", XA, ("lit", "1.0", "f64"))))))
            PROD = ("seq", ("let", "?m", ("lit", "1.0", "f64")), ("for", ("bind", "?i"), ("rangei", ("lit", "2", "usize"), ("cast", "f64", "usize", XA)), ("setop", "mul", "f64", ("var", "?m"), ("cast", "usize", "f64", ("var", "?i")))),
                    ("Ok", ("|", ("N", ("var", "?m")), ("F", ("var", "?m")))))
            WANT = ("if", ("op", "ge", "f64", XA, ("lit", "0.0", "f64")),
                    ("if", ("op", "gt", "f64", ("op", "rem", "f64", XA, ("lit", "1.0", "f64")), ("lit", "0.0", "f64")), GA,
                     ("if", ("op", "gt", "f64", XA, ("lit", "170.0", "f64")), ("Ok", ("F", ("const", "core::f64::<impl f64>::INFINITY", "_"))), PROD)), GA)
            run.ob(M(WANT, tF) is not None, "factorial|eval_number|F", "C10 eval_number: x! of a whole non-negative Float is the product 2*..*x (inf above 170), of any other Float gamma(x+1)", "%s arm Factorial" % where(m, "::ast::eval"), T.show(tF)[:300])
            tI = T.alpha(canon(chain.peval(r_[1], {("ev", ("A0",)): INT("a")})))
            eI = M(("if", "_", "_", "?else"), tI)
            run.ob(eI is not None and M(G("(fa)"), eI["?else"]) is not None, "factorial|eval_number|I-large", "C10 eval_number: n! of an Integer outside 0..=20 is gamma(n+1) on its double value", "%s arm Factorial" % where(m, "::ast::eval"), T.show(tI)[:200])
    if "eval_decimal" in models:
        m = models["eval_decimal"]
        r_, _ = chain.postfix_chain(m, "!")
        a = m.tb.eval_arms().get(r_[0]) if r_ else None
        okd = False
        if a:
            X = ("ev", ("C0",))
            ONE = ("call", "Decimal::new", ("lit", "1", "i64"), ("lit", "0", "u32"))
            GAM = ("lift", ("bindopt", ("call", "Decimal::checked_add", X, ONE), ("bind", "?v"), ("call", "Ast.gamma", ("var", "?v"))))
            # decided on the arm's decision table over the sign partition of the argument (negative / zero / positive x integral /
            # fractional; x % 1 has the sign of x or is 0), not on how the tree is nested: fractional -> gamma(x+1), negative
            # integer -> Err, anything else is the integer branch
            tab = decimal_factorial_table(a["term"], X, ONE, GAM)
            want = {"neg-int": "err", "neg-frac": "gamma", "zero": "other", "pos-int": "other", "pos-frac": "gamma"}
            okd = tab == want
            if not okd:
                a = dict(a, term=("table", str(tab), a["term"]))
        run.ob(okd, "factorial|eval_decimal", "C10 eval_decimal: x! of a non-integer (positive or negative) is gamma(x+1)", "%s arm Factorial" % where(m, "::ast::eval"), T.show(a["term"])[:300] if a else "no arm")
    # sibling agreement of the hand-written numerics
    gam = {}
    for ev in ("eval_f64", "eval_number", "eval_decimal"):
        if ev in models:
            t = models[ev].tb.helper_term("gamma")
            if t is not None:
                gam[ev] = t
    from ..gamma import check_gamma
    for ev_, t_ in gam.items():
        f_ = models[ev_].tb.fn("::ast::gamma")
        probs = check_gamma(t_, T.param_ids(f_)[0][1])
        run.ob(not probs, "gamma-reflection|%s" % ev_, "C10 the a < 0.5 branch of gamma is the reflection pi / (sin(pi a) * G(1 - a)) of the direct branch G (coefficients, denominators, power base and exponent with a -> 1 - a)",
               "%s (%s)" % (f_.key, f_.file), "; ".join(probs)[:400], sample={"evaluator": ev_, "gamma": "reflection branch = direct branch with a -> 1-a"})
    if "eval_f64" in gam and "eval_number" in gam:
        run.ob(gam["eval_f64"] == gam["eval_number"], "sibling|gamma|f64-number", "C10 the two f64 copies of gamma are identical (coefficients bit-equal, same formulas)", "eval_f64::ast::gamma vs eval_number::ast::gamma",
               "terms differ; f64 literals %s vs %s" % (floats_in(gam["eval_f64"])[:24], floats_in(gam["eval_number"])[:24]), sample={"sibling": "gamma f64 = number", "coefficients": len(floats_in(gam["eval_f64"]))})
    if "eval_f64" in gam and "eval_decimal" in gam:
        cf = sorted(set(round(x, 12) for x in floats_in(gam["eval_f64"]) if abs(x) not in (0.5, 1.0, 2.0, 3.0, 4.0, 5.0, 6.0, 7.0, 8.0, 9.0, 10.0)))
        cd = sorted(set(round(x, 12) for x in decimals_in(gam["eval_decimal"]) if abs(x) not in (0.5, 1.0, 2.0, 3.0, 4.0, 5.0, 6.0, 7.0, 8.0, 9.0, 10.0)))
        # decimal additionally spells pi and e as literals
        cd2 = [x for x in cd if not any(abs(x - c) < 1e-9 for c in (math.pi, math.e))]
        ok = len(cf) == len(cd2) and all(abs(a - b) <= 1e-10 * max(1.0, abs(a)) for a, b in zip(cf, cd2))
        run.ob(ok, "sibling|gamma|f64-decimal", "C10 the decimal copy of gamma uses the same Lanczos coefficients as the f64 copy", "eval_decimal::ast::gamma", "f64 %s vs decimal %s" % (cf, cd2),
               sample={"sibling": "gamma decimal ~ f64", "coefficients": len(cd2)})
    if "eval_f64" in models and "eval_number" in models:
        a = models["eval_f64"].tb.eval_arms()
        m = models["eval_number"]
        for ctor, name in (("LambertW", "w("),):
            rf_, _ = chain.function_chain(models["eval_f64"], name)
            ctor = rf_[0] if rf_ else ctor
            r, err = chain.function_chain(m, name)
            if r and ctor in a:
                t = strip_num(canon(chain.peval(r[1], {("ev", ("A0",)): FLT("a")})))
                t = T.alpha(chain.subst_sym(t, {("a",): ("ev", ("C0",))}))
                run.ob(t == T.alpha(a[ctor]["term"]), "sibling|%s|f64-number" % ctor, "C10 eval_number's Lambert W is the f64 iteration on the operand's double value", "eval_number::ast::eval arm %s" % ctor, "terms differ")
    # Lambert W and the iterated logarithm: the three copies are the same one-iteration state transformer
    if all(e_ in models for e_ in ("eval_f64", "eval_number", "eval_decimal")):
        from ..numsib import loop_step, compare
        X_, B_ = ("ev", ("C0",)), ("ev", ("C1",))
        for label, name, helper, roles in (("lambert_w", "w(", "lambert_w", {("param", "x"): ("X",)}), ("ilog", "ilog(", "ilog", {("param", "n"): ("X",), ("param", "b"): ("B",)})):
            res_ = {}
            for ev_ in ("eval_f64", "eval_number"):
                r_, _ = chain.function_chain(models[ev_], name)
                a_ = models[ev_].tb.eval_arms().get(r_[0]) if r_ else None
                res_[ev_] = loop_step(a_["term"], {X_: ("X",), B_: ("B",)}) if a_ else None
            ht = models["eval_decimal"].tb.helper_term(helper)
            res_["eval_decimal"] = loop_step(ht, roles) if ht is not None else None
            if label == "lambert_w":
                # w(x) e^w(x) = x within 1e-9 for every finite x >= -1/e: the Halley iteration must be able to run until it has
                # converged -- an exit test on the correction / residual -- or start from a value that depends on x.  A constant
                # start and a step count that is a function of log10(x)/3 only is too short once w(x) is a few units away
                for ev_, ls_ in res_.items():
                    if ls_ is None:
                        continue
                    const_start = all(isinstance(i_, tuple) and i_ and i_[0] == "num" for i_ in ls_["init"])
                    okc = ls_["exit"] is not None or not const_start
                    run.ob(okc, "lambert-convergence|%s" % ev_, "C10 w(x): the iteration runs until it has converged (exit test on the correction) or starts from an x-dependent estimate",
                           "%s Lambert W" % ev_, "constant start %s, no exit test, %s steps: w(100) is off by 1.2e-3 relative, w(1000000) by 99.9%%" % (T.show(ls_["init"])[:40], T.show(ls_["range"])[:120]),
                           sample={"evaluator": ev_, "start": T.show(ls_["init"])[:40], "steps": T.show(ls_["range"])[:100], "exit_test": ls_["exit"] is not None})
            probs = compare(res_) if all(v is not None for v in res_.values()) else ["a copy has no recognisable loop: %s" % [k for k, v in res_.items() if v is None]]
            run.ob(not probs, "sibling|%s" % label, "C10 the f64, Number and Decimal copies of %s are the same iteration (initial state, exit test, update, iteration cap) after type erasure" % label,
                   "eval_f64 / eval_number / eval_decimal: %s" % label, "; ".join(probs)[:500], sample={"sibling": label, "update": T.show(res_["eval_f64"]["updates"])[:160] if res_.get("eval_f64") else None})
    report_issues(run, models, tables={"T_eval", "T_prim", "T_lex"})
    run.floor("evaluators analysed", len(models), 5)
    run.floor("obligations", run.obligations, 300)
    return run.finish("chain name->token->node->operation for every (evaluator, documented name), constants by path/bits, source constants numerically, sibling agreement of gamma/Lambert W", "./check C10 --tier %s" % tier)
