"""C19 — literals denote their exact decimal value; printed results read back (DESIGN §5 C19).
Decided: the literal scanners (one token per literal form, exact text to the standard converter,
failure -> None/Err or the documented fallback).  Correct rounding and the print/re-read inverse are
the contracts of std / rust_decimal / num_complex (declined; grammar containment argued in spec/roundtrip.md)."""
from .. import spec, thir as T
from ..pat import M, subterms
from .common import setup, report_issues, where
from ..scanners import check_literals, converter_calls, imaginary_suffix

LEVEL = "other"
PID = "C19"


def main(tier):
    run, F, models = setup(PID, tier, LEVEL)
    run.trusted = ["str::parse::<f64> is correctly rounded; str::parse::<i64> is exact or Err; Decimal::from_str is exact for <= 28 significant digits",
                   "Display of f64 / i64 / Decimal / Complex<f64> prints a text that FromStr reads back to the same value; none of them uses an exponent or a character outside the literal grammar plus a leading '-' (spec/roundtrip.md)"]
    run.assumptions = ["declined: correct rounding of the converters and the print -> re-read round trip over all finite values (library contracts)"]
    if F is None:
        return run.finish("scanner analysis", "./check C19 --tier %s" % tier, explanation="-")
    for ev, m in models.items():
        check_literals(run, m, "C19")
        if ev == "eval_complex":
            imaginary_suffix(run, m, "C19")      # "imaginary with an `i` suffix"; also what makes the printed a+bi read back
        w = where(m, "::tokenizer::Tokenizer")
        # the literal token of each of the four forms is a single token: interpreting the scanner arm
        # (digits start the digit arm; '.' followed by a digit starts the dot arm; nothing else starts a literal)
        for c in "0123456789":
            k, i = m.lex.arm_for(c)
            k0, i0 = m.lex.arm_for("0")
            run.ob(k == "arm" and i == i0, "digit-arm|%s|%s" % (ev, c), "C19 every ASCII digit starts the same literal scanner", w, "%s -> %s" % (c, (k, i)), distinct="digit-arm|%s" % ev)
        if ev == "eval_number":
            r = m.lex.run("1)")
            t = r.get("term")
            # second point cuts the literal; a literal with a point is Float, without is Integer (via integer_or_float)
            cut = any(M(("if", ("op", "and", "bool", ("var", "?fl"), ("call", "<&char as cmp::PartialEq>::eq", "_", ("char", "."))), ("break",), "_"), s) is not None for s in subterms(t)) if t else False
            tbl = getattr(m, "scan_table", None)
            if tbl is not None:
                from ..scanners import table_verdict
                cut = table_verdict(tbl, True, True)[2] is True      # read off the loop's transition table: after the first '.', a '.' ends the literal
            run.ob(cut, "number|second-point", "C19 eval_number: a second point ends the literal", w, "no `if floating && c == '.' { break }` in the scanner")
            sel = None
            for s in subterms(t or ()):
                e = M(("if", ("var", "?fl"), "?a", "?b"), s)
                if e and converter_calls(e["?a"]) and converter_calls(e["?b"]):
                    sel = ({c[1] for c in converter_calls(e["?a"])}, {c[1] for c in converter_calls(e["?b"])})
            run.ob(sel == ({"str::parse::<f64>"}, {"Lex.integer_or_float"}) or sel == ({"str::parse::<f64>"}, {"str::parse::<i64>"}), "number|variant", "C19 eval_number: Float when the literal has a point, Integer (when it fits) otherwise", w, str(sel),
                   sample={"evaluator": ev, "with_point": "parse::<f64> -> Float", "without_point": "integer_or_float -> Integer | Float fallback"})
    report_issues(run, models, tables={"T_lex"})
    run.floor("evaluators analysed", len(models), 5)
    run.floor("obligations", run.obligations, 60)
    return run.finish("literal scanner analysis per evaluator: start characters, accepted characters, converter, argument, failure handling, no post-processing", "./check C19 --tier %s" % tier,
                      explanation="Structural necessary conditions: each literal form is scanned as one token over digits and '.', the exact scanned text (with the 0 prefix for .DIGITS) is handed to the standard converter of the evaluator's type, nothing is applied to the result, a failed conversion becomes None/Err (eval_number: Float fallback). Correct rounding and the print/re-read inverse are library contracts and are not decided.")
