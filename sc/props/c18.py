"""C18 — Number conversions are lossless and canonical (DESIGN §5 C18).
From<f64> and From<i64> are summarised to decision trees; the quantifier over all 2^64 doubles is
discharged by case analysis on the tree with exactly folded guard constants."""
from .. import thir as T
from ..pat import M, subterms
from .common import setup, report_issues
from .c09 import guard_ok, cast_guard_rule

LEVEL = "proof"
PID = "C18"


def integral_test(c, v):
    """recognised exact integrality tests on v (each is false for NaN and +-inf)"""
    fl = ("call", "f64::floor", v)
    tr = ("call", "f64::trunc", v)
    forms = [
        ("op", "eq", "f64", ("op", "sub", "f64", v, fl), ("lit", "0.0", "f64")),
        ("op", "eq", "f64", ("op", "sub", "f64", v, tr), ("lit", "0.0", "f64")),
        ("op", "eq", "f64", ("call", "f64::fract", v), ("lit", "0.0", "f64")),
        ("op", "eq", "f64", fl, v), ("op", "eq", "f64", v, fl), ("op", "eq", "f64", tr, v), ("op", "eq", "f64", v, tr),
        ("op", "eq", "f64", ("op", "rem", "f64", v, ("lit", "1.0", "f64")), ("lit", "0.0", "f64")),
    ]
    return c in forms


def from_f64_ok(F, m):
    """(ok, detail, term) for <Number as From<f64>>::from: Integer(t(v) as i64) exactly under an integrality test and a
    range guard on the same value, Float(v) otherwise -- nested `if`s or one conjunction"""
    ff = F.by_key.get("<eval_number::number::Number as std::convert::From<f64>>::from")
    if ff is None:
        return False, "From<f64> for Number not found", None
    tf = m.tb.deep_term(ff)
    # single-use immutable bindings (`let is_integral = ..; let fits = ..;`) are part of the condition
    items = list(tf[1:]) if isinstance(tf, tuple) and tf and tf[0] == "seq" else [tf]
    env = {}
    for it in items[:-1]:
        if isinstance(it, tuple) and len(it) == 3 and it[0] == "let":
            env[it[1]] = it[2]
        else:
            return False, "statement other than a binding: " + T.show(it)[:120], tf
    from ..tables import subst_vars
    tf = items[-1]
    for _ in range(len(env) + 1):
        tf = subst_vars(tf, env)
    v = ("param", T.param_ids(ff)[0][1])
    FLOATV = ("ctor", "Number::Float", v)
    e = M(("if", "?c", ("if", "?g", ("ctor", "Number::Integer", ("cast", "f64", "i64", "?t")), FLOATV), FLOATV), tf)
    if e is not None and integral_test(e["?c"], v):
        okg, why = guard_ok(e["?g"], e["?t"])
        ok_t = e["?t"] in (v, ("call", "f64::floor", v), ("call", "f64::trunc", v))
        return okg and ok_t, why or ("converted value %s" % T.show(e["?t"])), tf
    e3 = M(("if", "?c", ("if", "?x", FLOATV, ("ctor", "Number::Integer", ("cast", "f64", "i64", "?t"))), FLOATV), tf)
    if e3 is not None and integral_test(e3["?c"], v):
        # the range written as an exclusion (guard clauses): integral (hence not NaN), and neither below -2^63 nor at or above 2^63
        from .c09 import exclusion_ok
        okx, why = exclusion_ok(e3["?x"], e3["?t"], nan_excluded=True)
        ok_t = e3["?t"] in (v, ("call", "f64::floor", v), ("call", "f64::trunc", v))
        return okx and ok_t, why or ("converted value %s" % T.show(e3["?t"])), tf
    e2 = M(("if", "?c", ("ctor", "Number::Integer", ("cast", "f64", "i64", "?t")), FLOATV), tf)
    if e2 is not None:
        conj = []

        def flat(c):
            if isinstance(c, tuple) and c and c[0] == "op" and c[1] == "and":
                flat(c[3]); flat(c[4])
            else:
                conj.append(c)
        flat(e2["?c"])
        tv = e2["?t"]
        has_int = any(integral_test(c, v) for c in conj)
        okg, why = guard_ok(e2["?c"], tv)
        ok = has_int and okg and tv in (v, ("call", "f64::floor", v), ("call", "f64::trunc", v))
        return ok, why or ("integrality test present: %s" % has_int), tf
    return False, "not the canonical integral/range decision tree: " + T.show(tf)[:300], tf


def main(tier):
    run, F, models = setup(PID, tier, LEVEL)
    run.trusted = ["IEEE semantics of floor/trunc/fract and comparisons (inf - inf = NaN, NaN == x is false)", "`i64::MAX as f64` = 2^63 and `i64::MIN as f64` = -2^63 exactly (folded by the checker)",
                   "an integral double in [-2^63, 2^63) converts exactly with `as i64`"]
    if F is None or "eval_number" not in models:
        if F is not None:
            run.fail_closed("eval_number not present")
        return run.finish("case analysis", "./check C18 --tier %s" % tier)
    m = models["eval_number"]
    fi = F.by_key.get("<eval_number::number::Number as std::convert::From<i64>>::from")
    ff = F.by_key.get("<eval_number::number::Number as std::convert::From<f64>>::from")
    if fi is None or ff is None:
        run.fail_closed("anchor missing: From<i64>/From<f64> for Number")
        return run.finish("case analysis", "./check C18 --tier %s" % tier)
    ti = m.tb.deep_term(fi)
    e = M(("ctor", "Number::Integer", ("param", "?v")), ti)
    run.ob(e is not None, "from-i64", "C18 Number::from(i64) is Integer of the same value", fi.key, T.show(ti)[:120], sample={"fn": "From<i64>", "tree": T.show(ti)})
    ok_shape, detail, tf = from_f64_ok(F, m)
    v = ("param", T.param_ids(ff)[0][1])
    run.ob(ok_shape, "from-f64", "C18 Number::from(f64): Integer(n) exactly when v is finite, integral and in [-2^63, 2^63), with n = v; otherwise Float(v) carrying v itself",
           "%s (%s)" % (ff.key, ff.file), detail, sample={"fn": "From<f64>", "integral_test": "v - floor(v) == 0.0 (false for NaN, +-inf)", "range": "[-2^63, 2^63)", "else": "Float(v) (identity)"})
    # Float branches carry the parameter itself (bits unchanged)
    floats = [s for s in subterms(tf) if isinstance(s, tuple) and len(s) == 3 and s[0] == "ctor" and s[1] == "Number::Float"]
    run.ob(bool(floats) and all(s[2] == v for s in floats), "from-f64|float-identity", "C18 the Float branch carries the argument unchanged (NaN payload, infinities, -0.0)", ff.key, "; ".join(T.show(s)[:60] for s in floats))
    n = cast_guard_rule(run, tf, "%s (%s)" % (ff.key, ff.file), "from-f64")
    run.floor("casts in From<f64>", n, 1)
    # "no conversion changes a numeric value": every other place of eval_number that turns a double into an Integer
    # (helpers, evaluator arms, parser, tokenizer) obeys the same guard rule -- From<f64> is not the only door
    nother, nfn = 0, 0
    for g in F.fns:
        if g.evaluator != "eval_number" or not g.thir or g.derived or g is ff:
            continue
        nfn += 1
        # (helpers inlined and named constants folded: a range test moved into `fn in_i64_range(x)` is the same guard)
        try:
            tg = m.tb.inline_helpers(m.tb.fn_term(g))
        except Exception:
            tg = m.tb.fn_term(g)
        nother += cast_guard_rule(run, tg, "%s (%s)" % (g.key, g.file), "door|%s" % g.key.replace("eval_number::", ""))
    run.ob(True, "door-census", "C18", "eval_number", sample={"functions_scanned": nfn, "f64_to_Integer_casts_outside_From": nother})
    run.floor("eval_number functions scanned for double->Integer conversions", nfn, 15)
    return run.finish("decision-tree summary of From<i64>/From<f64>, integrality test from an enumerated exact set, guard constants folded exactly, identity flow on the Float branch", "./check C18 --tier %s" % tier, exhaustive=True)
