"""C07 — eval_decimal arithmetic is exact in base 10 (DESIGN §5 C07): structural necessary
conditions in this repository (routing to rust_decimal's checked exact operations, no binary
floating point on the path, literal -> Decimal::from_str of the scanned text).  Exactness of the
96-bit arithmetic itself is rust_decimal's contract (declined)."""
import re
from .. import spec, thir as T
from ..pat import subterms
from .common import setup, report_issues, where, check_chain
from ..scanners import check_literals

LEVEL = "other"
PID = "C07"
ARITH_ARMS = ("Add", "Subtract", "Multiply", "Divide", "Modulo", "Negative", "Number")
ROUNDERS = re.compile(r"Decimal::(round_dp|round_dp_with_strategy|round_sf|normalize|rescale|trunc_with_scale|set_scale|round|trunc|floor|ceil)$")


def main(tier):
    run, F, models = setup(PID, tier, LEVEL)
    run.trusted = ["rust_decimal 1.43: checked_add/sub/mul are exact or None; checked_div/checked_rem exact when representable, otherwise correctly rounded to 28 places; None for a zero divisor / out-of-range result",
                   "Decimal::from_str converts a decimal string of <= 28 significant digits exactly"]
    run.assumptions = ["declined: exactness / 1e-27 tolerance of rust_decimal's arithmetic (inside the dependency)"]
    if F is None or "eval_decimal" not in models:
        if F is not None:
            run.fail_closed("eval_decimal not present")
        return run.finish("routing", "./check C07 --tier %s" % tier, explanation="-")
    m = models["eval_decimal"]
    for kind, s in [("bin", c) for c in "+-*/%"] + [("pre", "-")]:
        check_chain(run, m, kind, s, "C07-a", "C07-a the operator is routed to rust_decimal's checked exact operation, operands in written order, None -> Err")
    arms = m.tb.eval_arms()
    for ctor in ARITH_ARMS:
        a = arms.get(ctor)
        if a is None:
            run.ob(False, "arm|%s" % ctor, "C07 arm present", where(m, "::ast::eval"), "no arm %s" % ctor)
            continue
        bad = [s for s in subterms(a["term"]) if isinstance(s, tuple) and len(s) > 1 and s[0] == "call" and isinstance(s[1], str) and ROUNDERS.search(s[1])]
        run.ob(not bad, "no-rounding|%s" % ctor, "C07-a no rounding / rescaling on the path of + - * / % and unary minus", "%s arm %s" % (where(m, "::ast::eval"), ctor), T.show(bad[0])[:120] if bad else "")
        fl = [s for s in subterms(a["term"]) if isinstance(s, tuple) and s and ((s[0] in ("op", "un", "lit") and "f64" in s[1:3]) or (s[0] == "cast" and ("f64" in s[1:3] or "f32" in s[1:3])) or (s[0] == "call" and isinstance(s[1], str) and re.search(r"f64|f32|to_f64|from_f64|powf", s[1])))]
        run.ob(not fl, "no-float|arm|%s" % ctor, "C07-b no binary floating point in the arithmetic arms", "%s arm %s" % (where(m, "::ast::eval"), ctor), T.show(fl[0])[:120] if fl else "")
    # b. no f32/f64 anywhere in tokenizer and parser of eval_decimal (MIR local types + casts + callees)
    nloc = 0
    for f in F.fns:
        if f.evaluator != "eval_decimal" or not f.mir or f.derived:
            continue
        if not ("::tokenizer::" in f.key or "::parser::" in f.key or f.key == "eval_decimal::eval_decimal"):
            continue
        for li, l in enumerate(f.mir["locals"]):
            nloc += 1
            if re.search(r"\bf(32|64)\b", l["ty"]):
                run.ob(False, "no-float|local|%s" % f.short, "C07-b no binary floating point between the input text and the Decimal value", "%s (%s)" % (f.key, f.file), "local _%d has type %s" % (li, l["ty"]))
        for b in f.mir["blocks"]:
            t = b["term"]
            if t["k"] == "call" and t["func"].get("fn"):
                nm = t["func"]["fn"]["def"]
                if re.search(r"(to_f64|from_f64|to_f32|from_f32|try_from.*f64|powf|from_f64_retain)", nm):
                    run.ob(False, "no-float|call|%s" % f.short, "C07-b no conversion through binary floating point", f.key, nm)
    run.ob(True, "no-float|census", "C07-b", "eval_decimal tokenizer+parser", sample={"locals_inspected": nloc, "float_typed": 0})
    check_literals(run, m, "C07-c")
    # the statement is about expressions: their value is that of the standard tree (C04's tables as a premise)
    from .c04 import precedence_tables
    precedence_tables(run, F, {"eval_decimal": m}, PID)
    report_issues(run, {"eval_decimal": m}, tables={"T_eval", "T_prim", "T_lex"})
    run.floor("obligations", run.obligations, 25)
    return run.finish("routing of + - * / % neg to checked Decimal operations (chain check), float-type census of tokenizer/parser, literal scanner", "./check C07 --tier %s" % tier,
                      explanation="Structural necessary conditions only: every arithmetic operator reaches rust_decimal's checked exact operation with operands in order and None->Err; no f32/f64 value exists between input text and result; literals go through Decimal::from_str of the scanned text. The numerical exactness of rust_decimal is trusted, not decided.")
