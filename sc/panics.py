"""C01 machinery: panic-edge census over MIR (both overflow configurations) with an
explicit callee classification, constant-condition discharge, and count-based
reconciliation against edges justified by recognised THIR schemas."""
import re
from collections import Counter
from .facts import CFG, callee_name

INT_TY = re.compile(r"^&*(?:mut )?[iu](?:8|16|32|64|128|size)$")

# --- callee classification ----------------------------------------------------
# may-panic (deny list, matched against the trait/inherent def path and the resolved instance path)
MAY_PANIC = [
    r"^core::panicking::", r"^std::panicking::", r"^std::rt::(begin_panic|panic_)", r"^core::panic::", r"^std::process::(exit|abort)",
    r"^std::panic::(panic_any|resume_unwind)", r"^core::intrinsics::(abort|unreachable|breakpoint)", r"^std::intrinsics::(abort|unreachable)",
    r"Option::<T>::(unwrap|expect|unwrap_unchecked)$", r"Result::<T, E>::(unwrap|expect|unwrap_err|expect_err|unwrap_unchecked|unwrap_err_unchecked|into_ok)$",
    r"^std::ops::Index::index$", r"^std::ops::IndexMut::index_mut$", r"^core::slice::index::", r"^core::str::(slice_error_fail|traits::<impl std::ops::Index)",
    r"slice::<impl \[T\]>::(split_at|split_at_mut|copy_from_slice|clone_from_slice|swap|chunks|chunks_exact|chunks_mut|chunks_exact_mut|rchunks|rchunks_exact|windows|rotate_left|rotate_right|select_nth_unstable|select_nth_unstable_by|select_nth_unstable_by_key|copy_within|swap_with_slice|fill_with|as_chunks|array_chunks)$",
    r"Vec::<T, A>::(remove|insert|swap_remove|drain|split_off|splice|extend_from_within|set_len|dedup_by_key)$", r"VecDeque::<T, A>::(remove|insert|swap|split_off|range|drain)$",
    r"String::(remove|insert|insert_str|truncate|split_off|drain|replace_range|from_utf16|from_utf8_unchecked)$",
    r"str::<impl str>::(split_at|split_at_mut|repeat|get_unchecked|slice_unchecked)$",
    r"char::methods::<impl char>::(from_digit|to_digit|is_digit)$", r"from_str_radix$", r"char::(from_u32_unchecked)$",
    r"^std::iter::Iterator::(step_by|sum|product)$", r"^std::iter::(Sum::sum|Product::product)$",
    r"num::<impl [iu](?:8|16|32|64|128|size)>::(pow|abs|isqrt|ilog|ilog2|ilog10|div_euclid|rem_euclid|next_power_of_two|div_ceil|next_multiple_of|strict_\w+|unchecked_\w+|midpoint|abs_diff_unchecked|div_floor)$",
    r"^std::cell::RefCell::<T>::(borrow|borrow_mut|replace|swap)$", r"^core::cell::RefCell::<T>::(borrow|borrow_mut)$",
    r"f64>::clamp$", r"<impl f64>::clamp$", r"<impl f32>::clamp$", r"^std::cmp::Ord::clamp$",
    r"^std::alloc::", r"^std::thread::", r"^std::sync::(mpsc|Mutex|RwLock|Condvar|Barrier)", r"^std::time::",
    r"^std::mem::(transmute|zeroed|uninitialized)", r"^core::hint::unreachable_unchecked", r"^std::hint::unreachable_unchecked",
    r"^std::hint::assert_unchecked", r"^core::hint::assert_unchecked", r"Duration::(from_secs_f64|from_secs_f32|mul_f64|div_f64)",
    r"^std::env::(args|vars)", r"^std::io::(stdin|stdout)", r"Layout::", r"^std::ptr::", r"^core::ptr::",
    # rust_decimal
    r"^rust_decimal::MathematicalOps::(exp|exp_with_tolerance|powi|powu|powf|powd|ln|log10|norm_pdf|norm_cdf|erf|sin|cos|tan)$",
    r"^rust_decimal::Decimal::(from_i128_with_scale|from_scientific_exact|rescale)$", r"^rust_decimal::Decimal::(new)$",
    r"^num_traits::(Pow::pow|pow::pow|pow::Pow::pow|Num::from_str_radix|identities::one|cast::\w+::\w+unwrap)",
    r"^num_traits::ops::euclid", r"^num_integer::", r"^num_traits::(int|PrimInt)",
]
MAY_PANIC_RE = [re.compile(p) for p in MAY_PANIC]
OPS_TRAIT = re.compile(r"^std::ops::(Add|Sub|Mul|Div|Rem|Neg|Shl|Shr|AddAssign|SubAssign|MulAssign|DivAssign|RemAssign|ShlAssign|ShrAssign)::\w+$")
PANICKING_OP_SELF = re.compile(r"^&*(?:mut )?(?:[iu](?:8|16|32|64|128|size)|rust_decimal::Decimal|std::num::Wrapping<.*>|std::time::\w+)$")
SORTS = re.compile(r"slice::<impl \[T\]>::(sort_by|sort_unstable_by|sort_by_key|sort_unstable_by_key|sort_by_cached_key|binary_search_by|binary_search_by_key|sort|sort_unstable|is_sorted_by|select_nth_unstable_by)$")

# known-safe families (anything else from std/deps is recorded as `unclassified`, not alarmed)
SAFE = [
    r"^core::f64::<impl f64>::", r"^std::f64::<impl f64>::", r"^core::num::<impl [iu]\d+>::(checked_\w+|wrapping_\w+|overflowing_\w+|saturating_\w+|signum|min|max|cmp|count_ones|leading_zeros|trailing_zeros|is_positive|is_negative|unsigned_abs|abs_diff|to_string)$",
    r"^core::num::<impl (i|u)(8|16|32|64|128|size)>::(checked_\w+|wrapping_\w+|overflowing_\w+|saturating_\w+|signum|unsigned_abs|abs_diff|is_positive|is_negative)$",
    r"^std::convert::(TryFrom::try_from|TryInto::try_into|From::from|Into::into|AsRef::as_ref)$", r"^core::str::<impl str>::(parse|chars|split_whitespace|len|is_empty|trim\w*|as_bytes|starts_with|ends_with|char_indices|bytes|contains|find|to_string|get)$",
    r"^std::str::FromStr::from_str$", r"^std::option::Option::<T>::(map|and_then|ok_or|ok_or_else|unwrap_or|unwrap_or_default|unwrap_or_else|is_some|is_none|or|or_else|filter|take|as_ref|as_mut|copied|cloned|iter|map_or|map_or_else|zip|is_some_and|ok|xor|and|get_or_insert_with|insert|replace)$",
    r"^std::result::Result::<T, E>::(map|map_err|and_then|ok|err|is_ok|is_err|unwrap_or|unwrap_or_default|unwrap_or_else|or_else|or|as_ref|map_or|map_or_else|is_ok_and|copied|cloned)$",
    r"^std::ops::(Try::branch|FromResidual::from_residual|Deref::deref|DerefMut::deref_mut|Drop::drop|Fn::call|FnMut::call_mut|FnOnce::call_once|RangeInclusive::<Idx>::(new|contains)|Range::<Idx>::contains|Not::not|BitAnd::bitand|BitOr::bitor|BitXor::bitxor|Neg::neg|Add::add|Sub::sub|Mul::mul|Div::div|Rem::rem|AddAssign::add_assign|SubAssign::sub_assign|MulAssign::mul_assign|DivAssign::div_assign|RemAssign::rem_assign|RangeBounds::contains)$",
    r"^std::iter::(Iterator::(next|by_ref|take|collect|for_each|peekable|map|filter|fold|rev|enumerate|zip|chain|skip|take_while|skip_while|count|last|nth|any|all|find|position|min_by|max_by|min_by_key|max_by_key|cloned|copied|flat_map|filter_map|try_fold|reduce|peek|unzip|partition|cmp|eq|lt|flatten|inspect|scan|map_while|find_map|size_hint|rposition|min|max)|IntoIterator::into_iter|Peekable::<I>::(peek|next_if|next_if_eq|peek_mut)|FromIterator::from_iter|Extend::extend|DoubleEndedIterator::\w+|ExactSizeIterator::len|repeat|once|empty)$",
    r"^std::clone::Clone::(clone|clone_from)$", r"^std::cmp::(PartialEq::(eq|ne)|PartialOrd::(partial_cmp|lt|le|gt|ge)|Ord::(cmp|min|max)|max|min|Ordering::\w+|max_by|min_by)$", r"^std::default::Default::default$",
    r"^std::boxed::Box::<T>::new$", r"^std::sync::Arc::<T>::(new|clone|try_unwrap|get_mut|make_mut|into_inner)$", r"^std::rc::Rc::<T>::(new|clone)$",
    r"^std::vec::Vec::<T>::(new|with_capacity)$", r"^std::vec::Vec::<T, A>::(push|pop|len|is_empty|clear|iter|iter_mut|extend|extend_from_slice|first|last|get|get_mut|as_slice|as_mut_slice|reserve|truncate|retain|dedup|append|capacity|contains|into_boxed_slice|shrink_to_fit|resize)$",
    r"^core::slice::<impl \[T\]>::(first|last|get|get_mut|len|is_empty|iter|iter_mut|contains|to_vec|reverse|first_mut|last_mut|split_first|split_last|concat|join|starts_with|ends_with|fill|into_vec)$", r"^std::slice::<impl \[T\]>::(to_vec|into_vec|concat|join)$",
    r"^std::string::String::(new|push|push_str|as_str|len|is_empty|clear|with_capacity|from_utf8|pop|chars|into_bytes|as_bytes|into_boxed_str|from_utf8_lossy)$", r"^std::string::ToString::to_string$", r"^std::fmt::", r"^core::fmt::", r"^std::hint::must_use$", r"^std::mem::(drop|take|replace|swap|size_of|discriminant)$",
    r"^std::char::methods::<impl char>::(is_ascii_digit|is_whitespace|is_alphabetic|is_numeric|is_ascii\w*|to_ascii_\w+|len_utf8|is_alphanumeric|eq_ignore_ascii_case|to_string|is_lowercase|is_uppercase)$", r"^std::borrow::", r"^std::any::", r"^std::error::", r"^std::marker::", r"^std::convert::identity$",
    r"^core::bool::<impl bool>::(then|then_some)$", r"^std::array::", r"^core::array::",
    # rust_decimal: checked / total APIs
    r"^rust_decimal::arithmetic_impls::<impl rust_decimal::Decimal>::checked_\w+$", r"^rust_decimal::MathematicalOps::(checked_\w+|sqrt)$",
    r"^rust_decimal::Decimal::(abs|ceil|floor|round|trunc|min|max|is_zero|is_sign_negative|is_sign_positive|scale|mantissa|normalize|round_dp|round_dp_with_strategy|round_sf|fract|is_integer|set_sign_positive|set_sign_negative|from_parts|try_new|try_from_i128_with_scale|from_str_exact|to_string|unpack|serialize|deserialize|set_scale|trunc_with_scale|is_one)$",
    r"^rust_decimal::prelude::(Signed::\w+|ToPrimitive::\w+|FromPrimitive::\w+|Zero::\w+|One::\w+)$", r"^num_traits::(cast::(ToPrimitive|FromPrimitive|NumCast|AsPrimitive)::\w+|sign::Signed::\w+|identities::(Zero|One)::\w+|Zero::\w+|One::\w+|float::\w+::\w+|Float::\w+|bounds::Bounded::\w+)$",
    # num_complex: float-only arithmetic and elementary functions
    r"^num_complex::Complex::<T>::(new|i|norm|norm_sqr|arg|conj|scale|unscale|inv|re|im|to_polar|from_polar|exp|exp2|ln|log|log2|log10|sqrt|cbrt|powf|powc|expf|powi|powu|sin|cos|tan|asin|acos|atan|sinh|cosh|tanh|asinh|acosh|atanh|finv|fdiv|is_nan|is_infinite|is_finite|is_normal|l1_norm|cis)$",
]
SAFE_RE = [re.compile(p) for p in SAFE]


def classify(fnj):
    """-> ('panic', why) | ('safe', None) | ('sort', None) | ('local', None) | ('unclassified', None)"""
    d = fnj["def"]
    inst = fnj.get("inst") or d
    if fnj.get("inst_local"):
        return ("local", None)
    if fnj.get("krate") == "string_calculator" and fnj.get("inst") is None:
        return ("local", None)
    for name in (d, inst):
        if SORTS.search(name):
            return ("sort", None)
    st = fnj.get("self_ty") or ""
    if OPS_TRAIT.match(d):
        if "::Neg::" in d and "Decimal" in st:
            return ("safe", None)
        if PANICKING_OP_SELF.match(st):
            return ("panic", "operator %s on %s panics on overflow / division by zero" % (d.split("::")[-1], st))
        # other operand types (f64, Complex<f64>) are total
        full = fnj.get("inst_full") or ""
        if "rust_decimal::Decimal" in full and "Neg" not in d:
            return ("panic", "Decimal operator %s panics on overflow / division by zero" % d.split("::")[-1])
        return ("safe", None)
    if d in ("std::iter::Iterator::sum", "std::iter::Iterator::product") and (fnj.get("gargs") or [""])[-1] in ("f64", "f32"):
        return ("safe", None)              # floating-point sum / product: IEEE operations, no overflow check
    for name in (d, inst):
        for r in MAY_PANIC_RE:
            if r.search(name):
                return ("panic", "callee %s may panic" % name)
    if d in ("std::iter::Iterator::sum", "std::iter::Iterator::product"):
        ga = fnj.get("gargs") or []
        if ga and ga[-1] in ("f64", "f32"):
            return ("safe", None)          # floating-point sum / product: IEEE operations, no overflow check
        return ("panic", "sum/product may overflow")
    for name in (d, inst):
        for r in SAFE_RE:
            if r.search(name):
                return ("safe", None)
    return ("unclassified", None)


# --- constant folding of assert conditions ---------------------------------------

def _bits(op):
    if op.get("k") == "const" and "bits" in op:
        return int(op["bits"])
    return None


def _signed(v, ty):
    m = re.match(r"^i(\d+|size)$", ty)
    if not m:
        return v
    w = 64 if m.group(1) == "size" else int(m.group(1))
    return v - (1 << w) if v >= (1 << (w - 1)) else v


def const_eval(block, stmt_idx_limit, op, depth=0):
    """Evaluate operand to an int if it is a constant or defined (in this block, before the
    terminator) by constant-only arithmetic. Returns None when unknown."""
    b = _bits(op)
    if b is not None:
        return b
    if depth > 6 or op.get("k") not in ("copy", "move"):
        return None
    p = op["p"]
    if p["proj"]:
        return None
    local = p["local"]
    for s in reversed(block["stmts"][:stmt_idx_limit]):
        if s["k"] == "assign" and s["lhs"]["local"] == local and not s["lhs"]["proj"]:
            rv = s["rv"]
            if rv["k"] == "use":
                return const_eval(block, stmt_idx_limit, rv["a"], depth + 1)
            if rv["k"] == "cast" and rv["ck"] == "IntToInt":
                v = const_eval(block, stmt_idx_limit, rv["a"], depth + 1)
                if v is None:
                    return None
                v = _signed(v, rv["from"])
                m = re.match(r"^[iu](\d+|size)$", rv["to"])
                w = 64 if (m and m.group(1) == "size") else (int(m.group(1)) if m else 64)
                return v & ((1 << w) - 1)
            if rv["k"] == "binop":
                a = const_eval(block, stmt_idx_limit, rv["a"], depth + 1)
                c = const_eval(block, stmt_idx_limit, rv["b"], depth + 1)
                if a is None or c is None:
                    return None
                a, c = _signed(a, rv["aty"]), _signed(c, rv["bty"])
                opn = rv["op"]
                table = {"Lt": a < c, "Le": a <= c, "Gt": a > c, "Ge": a >= c, "Eq": a == c, "Ne": a != c}
                if opn in table:
                    return 1 if table[opn] else 0
                if opn == "BitAnd":
                    return a & c
                if opn == "BitOr":
                    return a | c
                return None
            if rv["k"] == "unop" and rv["op"] == "Not":
                v = const_eval(block, stmt_idx_limit, rv["a"], depth + 1)
                return None if v is None else (0 if v else 1)
            return None
    return None


def mir_edges(F, f):
    """Panic edges of one function (non-cleanup, reachable blocks).
    Returns (edges, discharged_const, unclassified, sorts) ; edge = dict(kind, what, line, why)"""
    edges, discharged, unclassified, sorts = [], [], [], []
    if not f.mir:
        return edges, discharged, unclassified, sorts
    cfg = CFG(f.mir)
    reach = cfg.reachable()
    for bi in sorted(reach):
        b = f.mir["blocks"][bi]
        if b["cleanup"]:
            continue
        t = b["term"]
        if t["k"] == "assert":
            v = const_eval(b, len(b["stmts"]), t["cond"])
            if v is not None and bool(v) == t["expected"]:
                discharged.append({"kind": "assert", "what": t["msg"], "line": t["sp"][0], "argument": "constant condition (folds to %s)" % bool(v)})
                continue
            edges.append({"kind": "assert", "what": t["msg"], "line": t["sp"][0], "why": "MIR assert %s" % t["msg"], "ops": t.get("ops", [])})
        elif t["k"] in ("call", "tailcall"):
            fnj = t["func"].get("fn")
            if fnj is None:
                continue  # indirect: callees are in reach through the reify cast and are censused themselves
            cls, why = classify(fnj)
            name = callee_name(fnj)
            short = fnj["def"]
            if cls == "panic":
                if short.endswith("<impl char>::to_digit") or short.endswith("<impl char>::is_digit") or short.endswith("<impl char>::from_digit"):
                    rx = _bits(t["args"][1]) if len(t["args"]) == 2 else None
                    if rx is not None and 2 <= rx <= 36:
                        discharged.append({"kind": "call", "what": short, "line": t["sp"][0], "argument": "constant radix %d in 2..=36" % rx})
                        continue
                if short == "rust_decimal::Decimal::new" and len(t["args"]) == 2:
                    sc = _bits(t["args"][1])
                    if sc is not None and sc <= 28:
                        discharged.append({"kind": "call", "what": short, "line": t["sp"][0], "argument": "Decimal::new with constant scale %d <= 28 cannot panic" % sc})
                        continue
                edges.append({"kind": "call", "what": short, "self_ty": fnj.get("self_ty"), "line": t["sp"][0], "why": why, "full": fnj.get("inst_full")})
            elif cls == "sort":
                sorts.append({"what": short, "line": t["sp"][0], "args": t["args"]})
            elif cls == "unclassified":
                unclassified.append(name)
        elif t["k"] in ("asm", "otherterm"):
            edges.append({"kind": "term", "what": t["k"], "line": t["sp"][0], "why": "unsupported terminator"})
    return edges, discharged, unclassified, sorts


def edge_key(e):
    if e["kind"] == "assert":
        return ("assert", e["what"])
    w = e["what"]
    if w in ("std::ops::Index::index", "std::ops::IndexMut::index_mut"):
        return ("call", "Index")
    if OPS_TRAIT.match(w):
        st = (e.get("self_ty") or "").replace("rust_decimal::", "")
        return ("call", "%s<%s>" % (w.split("::")[2], st))
    return ("call", re.sub(r"^.*::(\w+(?:<[^>]*>)?::\w+)$", r"\1", w.replace("::<T>", "").replace("::<T, E>", "").replace("::<T, A>", "")))
