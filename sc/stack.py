"""C01-c static stack bound (engine E5): frame sizes from `-Zemit-stack-sizes` (code generation only,
nothing is executed) combined with the recursion facts of C02 (each parser cycle consumes >= 1 token,
eval / clone / drop recurse over a tree of height <= number of tokens)."""
import glob, os, re, shutil, subprocess, tempfile
from . import extract

MAX_LEN = 256
MAIN_STACK = 8 * 1024 * 1024
THREAD_STACK = 2 * 1024 * 1024
GUARD = 64 * 1024


def frame_sizes(profile):
    import hashlib, json
    repo = extract.repo_dir()
    key = hashlib.sha256(("stack|%s|%s" % (extract.tree_hash(repo), profile)).encode()).hexdigest()[:24]
    cp = os.path.join(extract.cache_root(), "stack-%s.json" % key)
    if os.path.exists(cp):
        with open(cp) as fh:
            return json.load(fh)
    sizes = _frame_sizes(profile, repo)
    with open(cp + ".tmp%d" % os.getpid(), "w") as fh:
        json.dump(sizes, fh)
    os.replace(cp + ".tmp%d" % os.getpid(), cp)
    return sizes


def _frame_sizes(profile, repo):
    t = tempfile.mkdtemp(prefix="sc-stack-", dir=extract.cache_root())
    try:
        env = dict(os.environ)
        env["RUSTFLAGS"] = "-Zemit-stack-sizes -Awarnings"
        env["CARGO_TARGET_DIR"] = t
        env["CARGO_NET_OFFLINE"] = "true"
        # rlibs built for fat LTO carry bitcode only; frame sizes need machine code
        env["CARGO_PROFILE_RELEASE_LTO"] = "false"
        env["CARGO_PROFILE_RELEASE_STRIP"] = "false"
        env.pop("RUSTC_WRAPPER", None)
        env.pop("RUSTC_WORKSPACE_WRAPPER", None)
        cmd = ["cargo", "+nightly", "build", "--offline", "--lib"] + (["--release"] if profile == "release" else [])
        p = subprocess.run(cmd, cwd=repo, env=env, stdout=subprocess.PIPE, stderr=subprocess.STDOUT, text=True)
        if p.returncode != 0:
            raise RuntimeError("stack-size build failed: " + p.stdout[-800:])
        rl = glob.glob(os.path.join(t, "release" if profile == "release" else "debug", "libstring_calculator*.rlib"))
        if not rl:
            rl = glob.glob(os.path.join(t, "release" if profile == "release" else "debug", "deps", "libstring_calculator*.rlib"))
        if not rl:
            raise RuntimeError("rlib not found")
        xd = os.path.join(t, "x")
        os.makedirs(xd)
        subprocess.run(["ar", "x", rl[0]], cwd=xd, check=True)
        objs = [o for o in glob.glob(os.path.join(xd, "*.o"))]
        ro = os.path.join(extract.sysroot(), "lib", "rustlib", "x86_64-unknown-linux-gnu", "bin", "llvm-readobj")
        out = subprocess.run([ro, "--stack-sizes", "--demangle"] + objs, stdout=subprocess.PIPE, stderr=subprocess.STDOUT, text=True).stdout
        sizes = {}
        cur = None
        for line in out.splitlines():
            m = re.search(r"Functions: \[(.*)\]", line)
            if m:
                cur = m.group(1)
            m = re.search(r"Size: (0x[0-9A-Fa-f]+|\d+)", line)
            if m and cur is not None:
                v = int(m.group(1), 0)
                for name in cur.split(", "):
                    sizes[name] = max(sizes.get(name, 0), v)
                cur = None
        return sizes
    finally:
        shutil.rmtree(t, ignore_errors=True)


def stack_bound(run):
    for profile in ("dev", "release"):
        try:
            sizes = frame_sizes(profile)
        except Exception as e:
            run.fail_closed("stack-size extraction failed (%s)" % profile, repr(e)[:600])
            continue
        if len(sizes) < 50:
            run.fail_closed("stack-size extraction returned only %d frames (%s)" % (len(sizes), profile))
            continue
        worst = 0
        detail = {}
        unknown = max(sizes.values())
        for ev in ("eval_f64", "eval_i64", "eval_decimal", "eval_complex", "eval_number"):
            pars = {n: s for n, s in sizes.items() if re.search(r"%s::parser::Parser" % ev, n)}
            if not pars:
                continue
            cyc = sum(pars.values())                      # upper bound of any simple cycle through the parser SCC
            evalf = max([s for n, s in sizes.items() if re.search(r"%s::ast::eval" % ev, n)] + [0])
            clone = max([s for n, s in sizes.items() if re.search(r"%s::ast::Node as core::clone::Clone" % ev, n)] + [0])
            drop = max([s for n, s in sizes.items() if "drop_in_place" in n and ("%s::ast::Node" % ev) in n] + [0])
            tok = max([s for n, s in sizes.items() if re.search(r"%s::tokenizer" % ev, n)] + [0])
            depth = MAX_LEN + 2
            # parse: depth cycles of the parser + deepest leaf work (tokenizer frame, one clone/drop recursion over the tree built so far)
            b_parse = depth * cyc + tok + depth * max(clone, drop) + unknown
            b_eval = depth * (evalf + max(clone, drop)) + unknown
            b = max(b_parse, b_eval)
            detail[ev] = {"parser_cycle_frames": cyc, "eval_frame": evalf, "clone_frame": clone, "drop_frame": drop, "bound_bytes": b}
            worst = max(worst, b)
        ok = worst + GUARD <= MAIN_STACK
        run.ob(ok, "stack|%s|budget=8MiB" % profile, "C01-c static stack bound for a 256-character input fits the 8 MiB main-thread stack", "profile %s" % profile,
               "bound %d bytes (%.2f MiB)" % (worst, worst / 1048576.0), sample={"profile": profile, "stack_bound_bytes": worst, "per_evaluator": detail})
        ok2 = worst + GUARD <= THREAD_STACK
        if not ok2:
            run.violation("stack|%s|budget=2MiB" % profile, "C01-c (side computation) static stack bound vs. a 2 MiB spawned-thread stack", "profile %s" % profile,
                          "bound %d bytes (%.2f MiB) exceeds 2 MiB: deeply nested input may overflow the stack of a spawned thread" % (worst, worst / 1048576.0))
            run.obligations += 1
        else:
            run.ob(True, "stack|%s|budget=2MiB" % profile, "C01-c", profile, sample={"profile": profile, "fits_2MiB": True})
