"""Verdict / evidence plumbing shared by all checks."""
import json, os, sys, time

VERIF = os.path.dirname(os.path.dirname(os.path.abspath(__file__)))
if os.environ.get("SC_REPO") and os.path.realpath(os.environ["SC_REPO"]) != "/repo":
    # checks pointed at a scratch copy (self-test, seeded changes) never touch the committed evidence
    EVIDENCE_DIR = os.path.join(os.environ.get("TMPDIR", "/tmp"), "scverif-evidence-scratch")
else:
    EVIDENCE_DIR = os.path.join(VERIF, "evidence")
if os.environ.get("SC_EVIDENCE_DIR"):
    # a feature-subset run of the thorough tier: its report goes next to the replay files, the property's evidence file is
    # written by the all-features run that aggregates them
    EVIDENCE_DIR = os.environ["SC_EVIDENCE_DIR"]
SUBSET_MODE = bool(os.environ.get("SC_FEATURES"))
EXTRA_COVERAGE = {}      # set by ./check for the thorough tier: per-configuration results of the feature-subset runs
REPLAY_DIR = os.path.join(EVIDENCE_DIR, "replay")
KNOWN = os.path.join(VERIF, "known_findings.json")


def load_known():
    if not os.path.exists(KNOWN):
        return {"findings": [], "fixed": []}
    with open(KNOWN) as fh:
        return json.load(fh)


class Run:
    def __init__(self, pid, tier, level):
        self.pid = pid
        self.tier = tier
        self.level = level
        self.t0 = time.time()
        self.violations = []   # dicts: key, rule, where, detail
        self.broken = []       # checker could not decide (missing anchor, floor unmet, extraction failure)
        self.obligations = 0
        self.discharged = 0
        self.samples = []
        self.notes = []
        self.coverage_extra = {}
        self.assumptions = []
        self.trusted = []
        self.distinct = set()
        self.seed = int(os.environ.get("VERIF_SEED", "0") or 0)

    # --- recording -----------------------------------------------------
    def ob(self, ok, key, rule, where, detail="", sample=None, distinct=None):
        """One obligation: ok=True discharged, False -> violation with this key."""
        self.obligations += 1
        self.distinct.add(distinct or key)
        if ok:
            self.discharged += 1
            if sample is not None and len(self.samples) < 12:
                self.samples.append(sample)
        else:
            self.violation(key, rule, where, detail)
        return ok

    def violation(self, key, rule, where, detail=""):
        full = "%s|%s" % (self.pid, key)
        for v in self.violations:
            if v["key"] == full:
                return
        self.violations.append({"key": full, "rule": rule, "where": where, "detail": detail})

    def fail_closed(self, what, detail=""):
        self.broken.append({"what": what, "detail": detail})

    def floor(self, name, got, at_least):
        if got < at_least and not SUBSET_MODE:      # (a feature subset has fewer evaluators: the all-features run enforces the floors)
            self.fail_closed("floor %s: matched %d instances, expected at least %d" % (name, got, at_least))
        self.coverage_extra.setdefault("floors", {})[name] = {"got": got, "at_least": at_least}
        return got >= at_least

    def note(self, s):
        self.notes.append(s)

    def sample(self, s):
        if len(self.samples) < 12:
            self.samples.append(s)

    # --- finishing -----------------------------------------------------
    def finish(self, rule_text, checker_cmd, explanation=None, exhaustive=None):
        known = load_known()
        known_keys = {f["key"]: f for f in known.get("findings", []) if f.get("property") == self.pid}
        new = [v for v in self.violations if v["key"] not in known_keys]
        old = [v for v in self.violations if v["key"] in known_keys]
        for v in old:
            print("KNOWN-FINDING: property=%s %s -- %s" % (self.pid, v["key"], known_keys[v["key"]].get("what", v["detail"])))
        wall = round(time.time() - self.t0, 2)
        cov = {
            "obligations": self.obligations,
            "discharged": self.discharged + len(old),
            "checker_cmd": checker_cmd,
            "trusted_base": self.trusted,
            "evaluations": max(self.obligations, 1),
            "distinct_nontrivial": max(len(self.distinct), 0),
            "rule": rule_text,
            "samples": self.samples[:12] or ["(no obligation was generated)"],
            "known_findings_matched": [v["key"] for v in old],
            "notes": self.notes[:40],
        }
        if explanation:
            cov["explanation"] = explanation
        if exhaustive is not None:
            cov["exhaustive"] = exhaustive
        cov.update(self.coverage_extra)
        cov.update(EXTRA_COVERAGE)
        ev = {
            "property_id": self.pid,
            "tier": self.tier,
            "seed": self.seed,
            "level": self.level,
            "coverage": cov,
            "assumptions": self.assumptions,
            "wall_s": wall,
            "violations": len(new) + len(self.broken),
        }
        os.makedirs(EVIDENCE_DIR, exist_ok=True)
        with open(os.path.join(EVIDENCE_DIR, "%s.json" % self.pid), "w") as fh:
            json.dump(ev, fh, indent=1, ensure_ascii=False)
        bad = bool(new or self.broken)
        if bad:
            os.makedirs(REPLAY_DIR, exist_ok=True)
            rp = os.path.join(REPLAY_DIR, "%s.%s.json" % (self.pid, self.tier))
            with open(rp, "w") as fh:
                json.dump({"property": self.pid, "tier": self.tier, "violations": new, "checker_broken": self.broken,
                           "repo": os.environ.get("SC_REPO", "/repo")}, fh, indent=1, ensure_ascii=False)
            for v in new:
                print("  violation %s\n    rule : %s\n    where: %s\n    %s" % (v["key"], v["rule"], v["where"], v["detail"]))
            for b in self.broken:
                print("  CHECK-BROKEN (fail closed): %s %s" % (b["what"], b["detail"]))
            print("VIOLATION property=%s replay=%s" % (self.pid, rp))
            return 1
        print("OK property=%s tier=%s obligations=%d discharged=%d known_findings=%d wall=%.1fs" % (
            self.pid, self.tier, self.obligations, self.discharged + len(old), len(old), wall))
        return 0
