"""Discharge arguments for panic edges that are infeasible (DESIGN §5 C01 'discharge arguments').
Each function returns how many edges of which kind a *recognised schema* justifies; an edge
is discharged only when the schema matches and its premises hold.  Everything else stands."""
import math
from collections import Counter, defaultdict
from . import thir as T
from .pat import M, parse as P, unify, subterms
from .tables import SCHEMA_FNS

IDX = "<Vec<%s> as ops::Index>::index"


def walk_ctx(t, fn, anc=()):
    """call fn(node, ancestors) for every tuple node; ancestors = ((parent, index_in_parent), ...)"""
    if isinstance(t, tuple) and t:
        fn(t, anc)
        for i, x in enumerate(t):
            walk_ctx(x, fn, anc + ((t, i),))


def fsa_shape_ok(m):
    return m.fsa_shape()[0]


def nonempty_ctor(m, ctor):
    """Every construction of Node::<ctor> in the parser is in the `else` of `if args.is_empty()` on the vector it wraps."""
    arms, after = m.prim_functions()
    n_guarded = 0
    for fnv, (evs_, tail) in arms.items():
        txt = T.show(tail)
        if ("Node::%s " % ctor) not in txt and ("Node::%s)" % ctor) not in txt:
            continue
        ok = (len(evs_) == 1 and evs_[0][0] == "fargs" and tail[0] == "if" and tail[1] == ("call", "Vec::is_empty", ("R1",))
              and tail[3] == ([], ("val", ("ctor", "Node::%s" % ctor, ("R1",))))
              and ("Node::%s" % ctor) not in T.show(tail[2]))
        if not ok:
            return False
        n_guarded += 1
    if n_guarded == 0:
        return False
    # no other construction site anywhere in the evaluator
    total = 0
    for g in m.F.fns:
        if g.evaluator != m.ev or not g.thir or g.kind == "Closure":
            continue
        if "::ast::" in g.key and g.derived:
            continue
        if "::parser::Parser::" in g.key and g.path not in {f_.path for f_ in m.tb.roles().values()}:
            continue        # a helper method: its body is counted where it is inlined (parser_term of the schema functions)
        t = m.tb.parser_term(g) if "::parser::Parser::" in g.key else m.tb.fn_term(g)
        for s in subterms(t):
            if isinstance(s, tuple) and len(s) >= 2 and s[0] == "ctor" and s[1] == "Node::%s" % ctor:
                total += 1
            if isinstance(s, tuple) and len(s) == 2 and s[0] == "fnref" and isinstance(s[1], str) and s[1].endswith("Node::%s" % ctor):
                total += 1      # the constructor as a function value that was not resolved to a construction site
    return total == n_guarded


def med_schema(m, ctor, term, rec):
    """Indexing into the sorted result vector of an aggregate arm."""
    just = Counter()
    vecs = {}
    for s in subterms(term):
        e = M("(let ?r (call Vec::new))", s)
        if e:
            vecs[e["?r"]] = s
    for r in vecs:
        R = ("var", r)
        pushes = []
        fors = []
        other = []

        def v(node, anc):
            if node == R and anc:
                parent, idx = anc[-1]
                if parent[0] == "call" and idx == 2:
                    nm = parent[1]
                    if nm == "Vec::push":
                        pushes.append((parent, anc))
                    elif nm in ("Vec::len", "[T]::sort_by", "[T]::sort_unstable_by", "[T]::sort", "[T]::sort_unstable", "Vec::is_empty") or nm.endswith("ops::Index>::index"):
                        pass
                    else:
                        other.append(nm)
                elif parent[0] == "Ok" or parent[0] == "let":
                    other.append("escapes")
                else:
                    other.append(parent[0])
        walk_ctx(term, v)
        if other or len(pushes) != 1:
            continue
        # the single push is the (unconditional) body of `for x in <args>`
        parent, anc = pushes[0]
        ok_loop = False
        for (a, i) in anc:
            if a[0] == "for" and M(("call", "iter", ("C0",)), a[2]) is not None:
                body = a[3]
                if body == parent or (isinstance(body, tuple) and body[0] == "seq" and body[-1] == parent and not any(isinstance(x, tuple) and x[0] in ("if", "match", "loop", "for") for x in body[1:-1])):
                    ok_loop = True
        if not ok_loop:
            continue
        if not nonempty_ctor(m, ctor):
            rec.append({"schema": "MED", "ctor": ctor, "premise_failed": "AGG-NONEMPTY: the parser does not guard every construction of Node::%s with `if args.is_empty()`" % ctor})
            continue
        LEN = ("call", "Vec::len", R)
        HALVES = [("op", "shr", "usize", LEN, ("lit", "1", "i32")), ("op", "shr", "usize", LEN, ("lit", "1", "u32")), ("op", "div", "usize", LEN, ("lit", "2", "usize"))]
        EVEN = [("op", "eq", "usize", ("op", "rem", "usize", LEN, ("lit", "2", "usize")), ("lit", "0", "usize")),
                ("op", "eq", "usize", ("op", "bitand", "usize", LEN, ("lit", "1", "usize")), ("lit", "0", "usize"))]

        def in_even_branch(anc):
            for (a, i) in anc:
                if a[0] == "if" and a[1] in EVEN and i == 2:
                    return True
            return False

        def vi(node, anc):
            if node[0] == "call" and isinstance(node[1], str) and node[1].endswith("ops::Index>::index") and len(node) == 4 and node[2] == R:
                ix = node[3]
                if ix in HALVES:
                    just[("call", "Index")] += 1
                elif ix[0] == "op" and ix[1] == "sub" and ix[3] in HALVES and ix[4] == ("lit", "1", "usize") and in_even_branch(anc):
                    just[("call", "Index")] += 1
                    just[("assert", "Overflow(Sub)")] += 1
        walk_ctx(term, vi)
        rec.append({"schema": "MED", "ctor": ctor, "vector": r, "justified": dict(("%s %s" % k, n) for k, n in just.items()),
                    "argument": "one push per argument + parser guarantees >= 1 argument => len >= 1 => len>>1 < len; under len%2==0, len >= 2 => (len>>1)-1 does not underflow and is < len"})
    return just


def surely_some(v):
    if not isinstance(v, tuple) or not v:
        return False
    if v[0] == "Some":
        return True
    if v[0] == "match":
        return all(surely_some(a[-1]) for a in v[2:])
    if v[0] == "if" and len(v) == 4:
        return surely_some(v[2]) and surely_some(v[3])
    if v[0] == "call" and v[1] in ("Option::unwrap_or", "Option::or") and len(v) == 4:
        if v[1] == "Option::or":
            return surely_some(v[3])
        x = v[2]
        return surely_some(v[3]) and isinstance(x, tuple) and x[0] == "mapopt" and surely_some(x[3])
    return False


def always_sets_some(body, mvar):
    if isinstance(body, tuple) and body:
        h = body[0]
        if h == "set" and body[1] == mvar:
            return surely_some(body[2])
        if h == "seq":
            return any(always_sets_some(x, mvar) for x in body[1:])
        if h == "if" and len(body) == 4:
            return always_sets_some(body[2], mvar) and always_sets_some(body[3], mvar)
        if h == "match":
            return all(always_sets_some(a[-1], mvar) for a in body[2:])
    return False


def seeded_schema(term, rec, ctor):
    just = Counter()
    e = M(("if", ("op", "gt", "usize", ("call", "Vec::len", ("C0",)), ("lit", "?k", "usize")), ("seq", ("let", "?m", ("None",)), ("for", "?p", ("call", "iter", ("C0",)), "?body"), ("Ok", ("call", "Option::unwrap", ("var", "?m")))), "?else"), term)
    if e is not None and int(e["?k"]) >= 0 and always_sets_some(e["?body"], ("var", e["?m"])):
        # writes to m only inside the loop (checked: the seq has exactly let/for/Ok)
        just[("call", "Option::unwrap")] += 1
        rec.append({"schema": "SEEDED", "ctor": ctor, "argument": "len > %s >= 0 => the loop runs at least once and every non-returning path of its body stores Some(_)" % e["?k"]})
    return just


def factorial_bound_schema(term, rec, ctor):
    just = Counter()
    for s in subterms(term):
        e = M(("if", ("call", "ops::RangeInclusive::contains", ("rangei", ("lit", "?lo", "i64"), ("lit", "?hi", "i64")), "?n"),
               ("seq", ("let", "?m", ("lit", "1", "i64")), ("for", ("bind", "?i"), ("rangei", ("lit", "2", "usize"), ("cast", "i64", "usize", "?n")),
                                                             ("setop", "mul", "i64", ("var", "?m"), ("cast", "usize", "i64", ("var", "?i")))), "?res"), "?else"), s)
        prod = False
        if e is None:
            # the same product over an i64 range (also what `(2..=n).product::<i64>()` abbreviates)
            e = M(("if", ("call", "ops::RangeInclusive::contains", ("rangei", ("lit", "?lo", "i64"), ("lit", "?hi", "i64")), "?n"),
                   ("seq", ("let", "?m", ("lit", "1", "i64")), ("for", ("bind", "?i"), ("rangei", ("lit", "2", "i64"), "?n"), ("setop", "mul", "i64", ("var", "?m"), ("var", "?i"))), "?res"), "?else"), s)
            prod = e is not None
        if e is not None:
            lo, hi = int(e["?lo"]), int(e["?hi"])
            if lo >= 0 and hi >= lo and math.factorial(hi) < 2 ** 63:
                just[("assert", "Overflow(Mul)")] += 1
                if prod:
                    just[("call", "Iterator::product")] += 1
                rec.append({"schema": "BOUNDED-PRODUCT", "ctor": ctor, "argument": "guard %d..=%d on n, accumulator seeded 1, factors 2..=n: maximum %d! = %d < 2^63" % (lo, hi, hi, math.factorial(hi))})
    return just


def guarded_div_schema(term, rec, ctor):
    just = Counter()

    def v(node, anc):
        if node[0] == "op" and node[1] in ("div", "rem") and node[2] == "i64" and len(node) == 5:
            a, b = node[3], node[4]
            for (p, i) in anc:
                if p[0] == "match" and isinstance(p[1], tuple) and p[1][0] == "call" and p[1][1] in ("i64::checked_rem_euclid", "i64::checked_rem", "i64::checked_div", "i64::checked_div_euclid") and p[1][2:] == (a, b):
                    arm = p[i]
                    if i >= 2 and isinstance(arm[0], tuple) and arm[0][0] == "pvar" and arm[0][1] == "Option::Some":
                        just[("assert", "DivisionByZero" if node[1] == "div" else "RemainderByZero")] += 1
                        just[("assert", "Overflow(%s)" % ("Div" if node[1] == "div" else "Rem"))] += 1
                        rec.append({"schema": "GUARDED-DIV", "ctor": ctor, "argument": "%s of (a, b) inside the Some(_) arm of %s(a, b), which is None exactly for b = 0 and (MIN, -1)" % (node[1], p[1][1])})
                        return
    walk_ctx(term, v)
    return just


def bounded_counter_schema(term, rec, ctor):
    just = Counter()
    lets = {}
    for s in subterms(term):
        e = M(("let", "?m", ("lit", "?v", "i64")), s)
        if e:
            lets[e["?m"]] = int(e["?v"])

    def v(node, anc):
        e = M(("setop", "add", "i64", ("var", "?m"), ("lit", "?d", "i64")), node)
        if e is None or e["?m"] not in lets:
            return
        for (p, i) in reversed(anc):
            if p[0] in ("loop",):
                return
            if p[0] == "for":
                r = M(("range", ("lit", "?a", "?t"), ("lit", "?b", "?t")), p[2]) or M(("rangei", ("lit", "?a", "?t"), ("lit", "?b", "?t")), p[2])
                if r is None:
                    return
                n = int(r["?b"]) - int(r["?a"]) + 1
                # no other write to the counter
                writes = [s for s in subterms(term) if isinstance(s, tuple) and s and ((s[0] == "set" and s[1] == ("var", e["?m"])) or (s[0] == "setop" and s[3] == ("var", e["?m"])))]
                if len(writes) == 1 and abs(lets[e["?m"]]) + n * abs(int(e["?d"])) < 2 ** 63:
                    just[("assert", "Overflow(Add)")] += 1
                    rec.append({"schema": "BOUNDED-COUNTER", "ctor": ctor, "argument": "counter seeded %d, +%s at most %d times inside a literal-bounded for loop" % (lets[e["?m"]], e["?d"], n)})
                return
    walk_ctx(term, v)
    return just


INT_TYS = {"i8", "i16", "i32", "i64", "i128", "isize", "u8", "u16", "u32", "u64", "u128", "usize"}


def panic_sites(term):
    """syntactic census of the potential panic sites of a term, by the MIR edge kind they give rise to"""
    c = Counter()

    def outside_closures(t):
        # the body of a closure is a function of its own (its edges are in its own MIR body and are discharged there)
        if isinstance(t, tuple):
            yield t
            if t and t[0] == "lambda":
                return
            for x in t:
                for y in outside_closures(x):
                    yield y
    for s in outside_closures(term):
        if not isinstance(s, tuple) or not s:
            continue
        if s[0] == "call" and isinstance(s[1], str):
            if s[1] == "Option::unwrap":
                c[("call", "Option::unwrap")] += 1
            elif s[1].endswith("ops::Index>::index"):
                c[("call", "Index")] += 1
        op = ty = None
        if s[0] == "op" and len(s) == 5:
            op, ty, rhs = s[1], s[2], s[4]
        elif s[0] == "setop" and len(s) == 5:
            op, ty, rhs = s[1], s[2], s[4]
        if op and ty in INT_TYS:
            if op in ("add", "sub", "mul"):
                c[("assert", "Overflow(%s)" % op.capitalize())] += 1
            elif op in ("div", "rem"):
                nonzero_lit = isinstance(rhs, tuple) and rhs and rhs[0] == "lit" and str(rhs[1]).lstrip("-").isdigit() and int(rhs[1]) not in (0, -1)
                if not nonzero_lit:
                    c[("assert", "DivisionByZero" if op == "div" else "RemainderByZero")] += 1
                    if ty.startswith("i"):
                        c[("assert", "Overflow(%s)" % op.capitalize())] += 1
    return c


TOTAL_CMP_OK = ("f64::total_cmp", "f32::total_cmp")


def comparator_total(lam):
    """lambda term of a sort comparator: (lambda (a b) body). True if the result is a total order on keys."""
    if not (isinstance(lam, tuple) and lam[0] == "lambda"):
        return False, "comparator is not a closure literal"
    body = lam[2]
    while isinstance(body, tuple) and body[0] == "seq":
        body = body[-1]
    if body[0] == "call":
        nm = body[1]
        if nm in TOTAL_CMP_OK or nm.endswith("as cmp::Ord>::cmp") or nm == "Decimal::cmp":
            return True, nm
        if nm == "Option::unwrap" and isinstance(body[2], tuple) and body[2][0] == "call":
            inner = body[2][1]
            m_ = __import__("re").match(r"^<(&*)(i8|i16|i32|i64|i128|isize|u8|u16|u32|u64|u128|usize|Decimal|char|bool) as cmp::PartialOrd>::partial_cmp$", inner)
            if m_:
                return True, "partial_cmp on an Ord type (%s) is always Some" % m_.group(2)
            return False, "partial_cmp(..).unwrap() on a type without a total order (%s)" % inner
    return False, "unrecognised comparator %s" % T.show(body)[:120]


def closure_unwrap_total(term):
    """(call Option::unwrap (call <T as PartialOrd>::partial_cmp ..)) with T: Ord"""
    n = 0
    for s in subterms(term):
        if isinstance(s, tuple) and len(s) == 3 and s[0] == "call" and s[1] == "Option::unwrap" and isinstance(s[2], tuple) and s[2][0] == "call":
            import re
            if re.match(r"^<(&*)(i8|i16|i32|i64|i128|isize|u8|u16|u32|u64|u128|usize|Decimal|char|bool) as cmp::PartialOrd>::partial_cmp$", s[2][1]):
                n += 1
    return n


def justifications(F, models):
    """-> (dict fn.path -> Counter{(kind, what): n}, records)"""
    J = defaultdict(Counter)
    rec = []
    for ev, m in models.items():
        # J1: n - 1 in function_static_arguments with literal call sites
        f = m.tb.fn("::parser::Parser::function_static_arguments")
        if f is not None:
            t = m.tb.parser_term(f)
            pn = T.param_ids(f)[1][1]
            nsub = len([s for s in subterms(t) if s == ("op", "sub", "i32", ("param", pn), ("lit", "1", "i32"))])
            sites = []
            lit_only = True
            for g in F.fns:
                if g.evaluator != ev or not g.thir or "::parser::" not in g.key:
                    continue
                for s in subterms(m.tb.fn_term(g)):
                    if isinstance(s, tuple) and len(s) == 4 and s[0] == "call" and s[1] == "P.function_static_arguments":
                        e = M(("lit", "?k", "i32"), s[3])
                        if e is None or not (-2 ** 31 < int(e["?k"]) <= 2 ** 31 - 1):
                            lit_only = False
                        else:
                            sites.append(int(e["?k"]))
            if nsub and lit_only and sites and not f.j.get("public"):
                J[f.path][("assert", "Overflow(Sub)")] += nsub
                for g in F.fns:
                    if g.kind == "Closure" and g.parent == f.path:
                        J[g.path][("assert", "Overflow(Sub)")] += nsub      # the same `n - 1`, written inside a closure of the function
                rec.append({"schema": "LITERAL-ARGS", "fn": f.key, "argument": "n - 1 on the parameter of a private function whose %d call sites all pass literals in %s" % (len(sites), sorted(set(sites)))})
            elif nsub:
                rec.append({"schema": "LITERAL-ARGS", "fn": f.key, "premise_failed": "a call site passes a non-literal argument (or the function is public)"})
        # J2: static-arity indexing in parse_number
        pn_fn = m.tb.fn("::parser::Parser::parse_number")
        if pn_fn is not None:
            arms, after = m.prim_functions()
            okshape = fsa_shape_ok(m)
            cnt = 0
            for fnv, (evs_, tail) in arms.items():
                if len(evs_) == 1 and evs_[0][0] == "fsa" and evs_[0][-1] == "tried" and isinstance(evs_[0][1], int) and tail[0] == "val":
                    n = evs_[0][1]
                    for s in subterms(tail[1]):
                        e = M(("call", "<Vec<Node> as ops::Index>::index", ("R1",), ("lit", "?k", "usize")), s)
                        if e is not None and 0 <= int(e["?k"]) < n:
                            cnt += 1
            nrm = getattr(m, "resolved_removes", 0)
            if okshape and nrm:
                # every `args.remove(k)` on a fixed-arity list was resolved in range (Model._resolve_removes); the calls live
                # in the helper methods that were inlined into the function table
                for p_ in getattr(m.tb, "_inlined_paths", set()):
                    g_ = F.by_path.get(p_)
                    if g_ is not None and "::parser::Parser::" in g_.key:
                        J[p_][("call", "Vec::remove")] += 10 ** 6
                J[pn_fn.path][("call", "Vec::remove")] += nrm
                rec.append({"schema": "ARITY-REMOVE", "fn": pn_fn.key, "sites": nrm, "argument": "args.remove(k) on the vector of function_static_arguments(n)?: k < remaining length at every call (constant propagation)"})
            if okshape and cnt:
                # the same sites may live in helper methods inlined into the function table (`single_argument()`):
                # all index sites on a fixed-arity list in the (inlined) arms are in range
                total_idx = 0
                for fnv, (evs_, tail) in arms.items():
                    if tail[0] == "val":
                        total_idx += sum(1 for s in subterms(tail[1]) if isinstance(s, tuple) and len(s) == 4 and s[0] == "call" and isinstance(s[1], str) and s[1].endswith("ops::Index>::index"))
                if total_idx == cnt:
                    for p_ in getattr(m.tb, "_inlined_paths", set()):
                        g_ = F.by_path.get(p_)
                        if g_ is not None and "::parser::Parser::" in g_.key:
                            J[p_][("call", "Index")] += 10 ** 6
            if okshape and cnt:
                J[pn_fn.path][("call", "Index")] += cnt
                rec.append({"schema": "ARITY", "fn": pn_fn.key, "sites": cnt, "argument": "function_static_arguments(n)? has exactly n elements (one unconditional push per iteration of `for i in 0..n`), indexed with literal k < n"})
            elif cnt:
                rec.append({"schema": "ARITY", "fn": pn_fn.key, "premise_failed": "function_static_arguments does not have the one-push-per-iteration shape"})
        # eval arms
        ef = m.tb.eval_fn()
        if ef is not None:
            sites = Counter()
            arms_just = Counter()
            residual_calls = set()
            for ctor, a in m.tb.eval_arms().items():
                t = a["term"]
                for fn_ in (lambda: med_schema(m, ctor, t, rec), lambda: seeded_schema(t, rec, ctor), lambda: factorial_bound_schema(t, rec, ctor),
                            lambda: guarded_div_schema(t, rec, ctor), lambda: bounded_counter_schema(t, rec, ctor)):
                    j_ = fn_()
                    J[ef.path].update(j_)
                    arms_just.update(j_)
                sites.update(panic_sites(t))
                for s in subterms(t):
                    if isinstance(s, tuple) and len(s) >= 2 and s[0] == "call":
                        hf = m.tb.resolve_local(s[1])
                        if hf is not None:
                            residual_calls.add(hf.path)
            # helpers whose bodies live (only) inside the arm terms: an edge of kind K in such a helper is an instance of
            # a K-site of the inlined arms; if every K-site of every arm is justified, so is every K-edge of the group
            group = [F.by_path[p] for p in getattr(m.tb, "_inlined_paths", set()) if p in F.by_path and p not in residual_calls]
            callers_ok = {}
            edges_, _, _ = F.callgraph()
            inl = set(getattr(m.tb, "_inlined_paths", set())) | set(m.tb._cache.get("walker_names", ()))
            for g in group:
                callers = [p for p, qs in edges_.items() if g.path in qs and p != g.path]
                callers_ok[g.path] = all(p in inl or (F.by_path.get(p) is not None and F.by_path[p].kind == "Closure" and F.by_path[p].parent in inl) for p in callers)
            for K, n in sites.items():
                if n and arms_just.get(K, 0) >= n:
                    for g in group:
                        if callers_ok.get(g.path):
                            J[g.path][K] += 10 ** 6
                    if group:
                        rec.append({"schema": "ALL-SITES", "ctor": "*", "kind": "%s %s" % K, "argument": "every one of the %d %s sites of the inlined arm terms is justified; helpers %s are reached only through the arms" % (n, K[1], sorted(g.short for g in group)[:6])})
        # closures: partial_cmp().unwrap() on Ord types
        for g in F.fns:
            if g.evaluator == ev and g.kind == "Closure" and g.thir:
                ctx = T.Ctx(inline_pure=True)
                body = T.fold(g.thir["body"])
                t = T.normalise(m.tb.TR.term(body, ctx))
                n = closure_unwrap_total(t)
                if n:
                    J[g.path][("call", "Option::unwrap")] += n
                    rec.append({"schema": "TOTAL-ORDER", "fn": g.key, "argument": "partial_cmp on a type implementing Ord returns Some"})
    return J, rec
