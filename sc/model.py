"""Per-evaluator parser/lexer model assembled from the extracted tables, with
shape validation.  Every accessor returns plain data; deviations from the
recognised shapes are recorded in tb.issues (-> UNRECOGNISED verdicts)."""
import re
from . import thir as T
from .pat import M, parse as P, unify, subterms
from .tables import subst_vars, EvTables, summarise, show_summary, show_tail, tok_name, cat_name, category_order, SELF
from .lexer import LexModel
from . import spec

CUR = P("(field (param self) current_token)")


def ctor_name(t):
    """(ctor Token::X ...) -> 'X' ; with payload ctor: ('ExplicitFunction','Sin')"""
    if isinstance(t, tuple) and t and t[0] == "ctor":
        n = t[1].split("::", 1)[1]
        if len(t) == 3 and isinstance(t[2], tuple) and t[2] and t[2][0] == "ctor":
            return (n, t[2][1].split("::", 1)[1])
        return n
    return None


class Model:
    def __init__(self, F, ev):
        self.F = F
        self.ev = ev
        self.tb = EvTables(F, ev)
        self.lex = LexModel(self.tb)
        self._prim = None
        self._bin = None
        self._sum = {}

    def issue(self, table, where, detail):
        self.tb.issue(table, where, detail)

    @property
    def issues(self):
        return self.tb.issues

    # ---- lexer ------------------------------------------------------------
    def lex_surface(self, s):
        """Interpret the lexer model on surface s (followed by a neutral ')').
        Returns (token_term or None, fully_consumed: bool, raw result)."""
        if not self.lex.ok:
            return None, False, {"kind": "unrecognised", "why": "no lexer model"}
        r = self.lex.run(s + ")")
        if r["kind"] != "tok":
            return None, False, r
        want = len(s) - (1 if (s.endswith("(") and len(s) > 1) else 0)
        return r["token"], r["consumed"] == want, r

    def token_of(self, s):
        t, full, r = self.lex_surface(s)
        return t if full else None

    def tokvar(self, s):
        t = self.token_of(s)
        return ctor_name(t) if t is not None else None

    # ---- parser function summaries -----------------------------------------
    def summary(self, name):
        if name in self._sum:
            return self._sum[name]
        f = self.tb.fn("::parser::Parser::" + name)
        if f is None:
            if name != "get_enclosed_elements_with_impl_mult":      # the bracket helper may be written out in the arms (see _fold_encl)
                self.issue("T_loop", self.ev, "parser function %s not found" % name)
            self._sum[name] = None
            return None
        t = T.anf(self.tb.parser_term(f))
        s = summarise(t)
        self._sum[name] = s
        return s

    def _arms_on_current_token(self, s, where):
        """summary whose tail is `match self.current_token {..}` (possibly via a cloned local)"""
        if s is None:
            return None
        evs, tail = s
        if tail[0] != "match":
            self.issue("T_prim", where, "body is not a match on the current token: %s" % show_tail(tail)[:200])
            return None
        if unify(CUR, tail[1]) is None:
            self.issue("T_prim", where, "match scrutinee is not self.current_token: %s" % T.show(tail[1])[:200])
            return None
        if evs:
            self.issue("T_prim", where, "effects before the token match: %s" % str(evs)[:200])
            return None
        out = {}
        for pat, sm in tail[2]:
            for v in self.tb._pat_variants(pat):
                if v not in out:
                    out[v] = (pat, self._fold_encl(self._resolve_curcat(sm, v)))
        return out

    @staticmethod
    def _fold_encl(sm):
        """consume the opener, parse at level L, require closer T, hand W(inner) to implicit_multiply -- written out in the
        arm -- is what a call of the bracket helper does: same canonical summary"""
        evs, tail = sm
        if len(evs) == 3 and evs[0][0] == "next" and evs[1][0] == "ast" and evs[2][0] == "check" and all(e_[-1] == "tried" for e_ in evs) \
                and tail[0] == "tailcall" and tail[1][0] == "impl":
            w = tail[1][1]
            lam = None
            if w == ("R1",):
                lam = ("lambda", (("bind", "b0"),), ("var", "b0"))
            elif isinstance(w, tuple) and len(w) == 3 and w[0] == "ctor" and w[2] == ("R1",):
                lam = ("lambda", (("bind", "b0"),), ("ctor", w[1], ("var", "b0")))
            if lam is not None:
                return ([], ("tailcall", ("encl", evs[1][1], evs[2][1], lam), tail[2] if len(tail) > 2 else False))
        return sm

    def _resolve_curcat(self, sm, tokvar):
        """`curcat` (the category of the token that selected the arm, read before anything was consumed) -> that category"""
        cat = self.tb.category_of(tokvar)

        def r(x):
            if isinstance(x, tuple):
                return tuple(r(y) for y in x)
            if isinstance(x, list):
                return [r(y) for y in x]
            if x == "curcat" and cat:
                return cat
            return x
        return r(sm)

    def prim(self):
        """dict Token-variant -> (pattern, summary) of parse_number; '_' default."""
        if self._prim is None:
            self._prim = self._arms_on_current_token(self.summary("parse_number"), "%s parse_number" % self.ev) or {}
        return self._prim

    def bin(self):
        if self._bin is None:
            self._bin = self._arms_on_current_token(self.summary("convert_token_to_node"), "%s convert_token_to_node" % self.ev) or {}
        return self._bin

    def prim_functions(self):
        """dict NativeFunction-variant -> summary of the inner arm, plus the after-action.
        Returns (arms, after) where after is the tail applied to the built node."""
        pr = self.prim()
        if "ExplicitFunction" not in pr:
            return {}, None
        pat, (evs, tail) = pr["ExplicitFunction"]
        if not (len(evs) == 1 and evs[0][0] == "branch"):
            self.issue("T_prim", "%s parse_number/ExplicitFunction" % self.ev, "unexpected shape: %s" % str(evs)[:200])
            return {}, None
        (bevs, btail) = evs[0][1]
        if bevs or btail[0] != "match":
            self.issue("T_prim", "%s parse_number/ExplicitFunction" % self.ev, "inner shape is not a match on the function: %s" % show_tail(btail)[:200])
            return {}, None
        # scrutinee must be the payload binder of the ExplicitFunction pattern
        binder = None
        e = M("(pvar Token::ExplicitFunction (bind ?b))", pat)
        if e is not None:
            binder = ("var", e["?b"])
        if binder is None or btail[1] != binder:
            self.issue("T_prim", "%s parse_number/ExplicitFunction" % self.ev, "inner match is not on the function payload")
            return {}, None
        arms = {}
        for p, sm in btail[2]:
            sm = self._resolve_removes(sm)
            for v in self.tb._pat_variants(p):
                if v not in arms:
                    arms[v] = sm
        return arms, tail

    def _resolve_removes(self, sm):
        """`args.remove(k)` on the vector of a fixed-arity argument list: which original argument each call takes
        (constant propagation over a vector of known length).  Resolved removes become the canonical `args[j]`."""
        evs, tail = sm
        fsa = [(i, e) for i, e in enumerate(evs) if e[0] == "fsa" and isinstance(e[1], int)]
        rms = [e for e in evs if e[0] == "vecremove"]
        if len(fsa) != 1:
            return sm
        idx, fe = fsa[0]
        vec = ("R%d" % (1 + sum(1 for e in evs[:idx] if e[0] not in ("cond", "stmt"))),)
        inline_rm = [x for x in subterms(tail) if isinstance(x, tuple) and len(x) == 4 and x[0] == "call" and x[1] == "Vec::remove" and x[2] == vec]
        if not rms and not inline_rm:
            return sm
        remaining = list(range(fe[1]))
        env = {}
        for e in rms:
            if e[1] != vec or not (0 <= e[2] < len(remaining)):
                return sm
            env[e[3]] = ("call", "<Vec<Node> as ops::Index>::index", vec, ("lit", str(remaining.pop(e[2])), "usize"))
        self.resolved_removes = getattr(self, "resolved_removes", 0) + len(rms)
        bad = []

        def r(x):
            if isinstance(x, tuple):
                if x in env:
                    return env[x]
                if len(x) == 4 and x[0] == "call" and x[1] == "Vec::remove" and x[2] == vec:
                    # a remove written inside the result expression: operands are evaluated left to right, after the bound ones
                    k = int(x[3][1]) if isinstance(x[3], tuple) and len(x[3]) == 3 and x[3][0] == "lit" and str(x[3][1]).isdigit() else None
                    if k is None or not (0 <= k < len(remaining)):
                        bad.append(x)
                        return x
                    self.resolved_removes += 1
                    return ("call", "<Vec<Node> as ops::Index>::index", vec, ("lit", str(remaining.pop(k)), "usize"))
                return tuple(r(y) for y in x)
            if isinstance(x, list):
                return [r(y) for y in x]
            return x
        new_tail = r(tail)
        if bad:
            return sm
        return ([e for e in evs if e[0] != "vecremove"], new_tail)

    # ---- generic shape checks (return (ok, detail)) ---------------------------
    def generate_ast_shape(self):
        """left := parse_number()?; while prec < cur.get_oper_prec() [&& cur != Eof] { left := ctn(left)? }; Ok(left)
        -- the loop condition is read as a set of conjuncts (any order; an `if cur == Eof {break}` inside the body is the
        same conjunct), so only the comparison itself is constrained: strict `<`, level parameter on the left"""
        f = self.tb.fn("::parser::Parser::generate_ast")
        if f is None:
            return False, "generate_ast not found"
        t = self.tb.parser_term(f)
        LT = P("(call \"<utils::operator_category::OperatorCategory as cmp::PartialOrd>::lt\" (param ?prec) (call Token.get_oper_prec %s))" % T.show(CUR))
        EQ, NE = "<Token as cmp::PartialEq>::eq", "<Token as cmp::PartialEq>::ne"
        EOF_ = ("ctor", "Token::Eof")
        NE_EOF = [("call", NE, CUR, EOF_), ("call", NE, EOF_, CUR), ("un", "not", "bool", ("call", EQ, CUR, EOF_)), ("un", "not", "bool", ("call", EQ, EOF_, CUR))]
        EOFBRK = [("if", ("call", EQ, CUR, EOF_), ("break",), ("unit",)), ("if", ("call", EQ, EOF_, CUR), ("break",), ("unit",))]
        e = M(("seq", ("let", "?l", ("try", ("call", "P.parse_number", ("param", "self")))), ("loop", ("if", "?c", "?step", ("break",))), ("Ok", ("var", "?l"))), t)
        s = T.show(t)
        if e is None:
            return False, "UNRECOGNISED generate_ast shape: %s" % s[:400]
        conj = []

        def flat(c):
            if isinstance(c, tuple) and c and c[0] == "op" and len(c) == 5 and c[1] == "and":
                flat(c[3]); flat(c[4])
            else:
                conj.append(c)
        flat(e["?c"])
        step = e["?step"]
        items = list(step[1:]) if isinstance(step, tuple) and step and step[0] == "seq" else [step]
        while items and items[0] in EOFBRK:
            items.pop(0)
        L = ("var", e["?l"])
        CTN = ("try", ("call", "P.convert_token_to_node", ("param", "self"), L))
        okstep = items == [("set", L, CTN)] or (len(items) == 2 and M(("let", "?r", CTN), items[0]) is not None and items[1] == ("set", L, ("var", items[0][1])))
        lts = [c for c in conj if unify(LT, c) is not None]
        rest = [c for c in conj if unify(LT, c) is None]
        if len(lts) == 1 and all(c in NE_EOF for c in rest) and okstep:
            if unify(LT, lts[0])["?prec"] != self._param_name(f, 1):
                return False, "compared value is not the precedence parameter"
            return True, "strict `<` between the level parameter and the current token's category"
        if "PartialOrd>::le" in s:
            return False, "climb uses `<=` instead of strict `<` (would make equal-precedence operators right-associative)"
        if "PartialOrd>::gt" in s or "PartialOrd>::ge" in s:
            return False, "climb compares in the opposite direction"
        return False, "UNRECOGNISED generate_ast shape: %s" % s[:400]

    def _param_name(self, f, idx):
        ps = T.param_ids(f)
        return ps[idx][1] if idx < len(ps) else None

    def parse_shape(self):
        s = self.summary("parse")
        if s is None:
            return False, "parse not found", None
        evs, tail = s
        start = [e for e in evs if e[0] == "ast"]
        if len(evs) != 1 or len(start) != 1 or start[0][2] != "tried":
            return False, "parse() does not consist of one generate_ast(..)? call: %s" % str(evs)[:200], None
        return True, "", start[0][1]

    def eof_gate(self):
        """Ok only if current_token == Eof after generate_ast (structural form; the MIR rule in C03 is path-based)."""
        s = self.summary("parse")
        if s is None:
            return False, "parse not found"
        evs, tail = s
        NE = ("call", "<Token as cmp::PartialEq>::ne", CUR, ("ctor", "Token::Eof"))
        EQ = ("call", "<Token as cmp::PartialEq>::eq", CUR, ("ctor", "Token::Eof"))
        EQ2 = ("call", "<Token as cmp::PartialEq>::eq", ("ctor", "Token::Eof"), CUR)
        NE2 = ("call", "<Token as cmp::PartialEq>::ne", ("ctor", "Token::Eof"), CUR)
        MATCHES = ("match", CUR, (("pvar", "Token::Eof"), ("lit", "true", "bool")), ("_", ("lit", "false", "bool")))

        def is_err(sm):
            e, t = sm
            while t[0] == "ret":
                t = t[1]
            return t[0] == "err"

        def is_ok_r1(sm):
            e, t = sm
            while t[0] == "ret":
                t = t[1]
            return t[0] == "ok" and t[1] == ("R1",) and not e

        if tail[0] == "if":
            c = tail[1]
            neg = False
            while isinstance(c, tuple) and c[0] == "un" and c[1] == "not":
                c = c[3]
                neg = not neg
            if c in (NE, NE2):
                is_ne = True
            elif c in (EQ, EQ2, MATCHES):
                is_ne = False
            else:
                return False, "final test is not a comparison of the current token with Eof: %s" % T.show(c)[:200]
            if neg:
                is_ne = not is_ne
            a, b = tail[2], tail[3]
            if is_ne and is_err(a) and is_ok_r1(b):
                return True, "Err unless current_token == Eof"
            if (not is_ne) and is_ok_r1(a) and is_err(b):
                return True, "Ok only if current_token == Eof"
            return False, "Eof test present but the branches are not (Err, Ok(ast)): inverted or altered gate"
        if tail[0] == "match" and unify(CUR, tail[1]) is not None:
            oks = [(p, sm) for p, sm in tail[2] if is_ok_r1(sm)]
            if len(oks) == 1 and oks[0][0] == ("pvar", "Token::Eof") and all(is_err(sm) for p, sm in tail[2] if p != ("pvar", "Token::Eof")):
                return True, "match current_token { Eof => Ok, _ => Err }"
        return False, "no Eof gate: parse() returns %s" % show_tail(tail)[:200]


    # ---- shared premises ------------------------------------------------------
    def entry_chain(self):
        """eval_x = strip whitespace -> Parser::new(.., Some(placeholder))? -> parse()? -> eval(ast)? -> Ok  (nothing else).
        Decided on the dataflow expression of the body (local helpers inlined, Result combinators and `?` unified,
        single-use lets substituted), so the spelling of the chain does not matter."""
        fe = self.F.by_key.get("%s::%s" % (self.ev, self.ev))
        if fe is None:
            return False, "entry point not found"
        te = self.tb.fn_term(fe)
        t = self.tb.canon_result(self.tb.inline_helpers(self.tb.canon_result(te)))
        items = list(t[1:]) if isinstance(t, tuple) and t and t[0] == "seq" else [t]
        env = {}
        for it in items[:-1]:
            if not (isinstance(it, tuple) and len(it) == 3 and it[0] == "let"):
                return False, "statement other than a binding in the entry point: " + T.show(it)[:200]
            env[it[1]] = it[2]
        uses = {n: 0 for n in env}

        def count(x):
            if isinstance(x, tuple):
                if len(x) == 2 and x[0] == "var" and x[1] in uses:
                    uses[x[1]] += 1
                for y in x:
                    count(y)
        for it in items:
            count(it[2] if (isinstance(it, tuple) and len(it) == 3 and it[0] == "let") else it)
        if any(v != 1 for v in uses.values()):
            return False, "a bound value is used %s times: %s" % (sorted(uses.items()), T.show(t)[:200])
        final = items[-1]
        for _ in range(len(env) + 1):
            final = subst_vars(final, env)
        STRIP = ("|", ("call", "Iterator::collect::<String>", ("call", "str::split_whitespace", ("param", "?e"))),
                 ("call", "Iterator::collect::<String>", ("call", "<std::str::Chars<'_> as iter::Iterator>::filter", ("call", "str::chars", ("param", "?e")),
                                                          ("lambda", (("bind", "?c"),), ("un", "not", "bool", ("call", "char::is_whitespace", ("var", "?c")))))))
        want = ("Ok", ("ev", ("try", ("call", "P.parse", ("try", ("call", "P.new", STRIP, ("Some", ("param", "?ph"))))))))
        e = M(want, final)
        ps = T.param_ids(fe)
        ok = e is not None and len(ps) == 2 and e["?e"] == ps[0][1] and e["?ph"] == ps[1][1]
        return ok, ("strip -> new? -> parse? -> eval? -> Ok" if ok else T.show(final)[:300])

    def check_paren_shape(self):
        """check_paren(expected): current token == expected -> consume it (Ok), otherwise Err"""
        f = self.tb.fn("::parser::Parser::check_paren")
        if f is None:
            return False, "check_paren not found"
        t = self.tb.parser_term(f)
        CONSUME = ("|", ("seq", ("try", ("call", "P.get_next_token", ("param", "self"))), ("Ok", ("tuple",))), ("call", "P.get_next_token", ("param", "self")),
                   ("Ok", ("try", ("call", "P.get_next_token", ("param", "self")))))
        e = M(("if", ("call", "<Token as cmp::PartialEq>::eq", "?a", "?b"), CONSUME, ("Err",)), t)
        pn = self._param_name(f, 1)
        ok = e is not None and {e["?a"], e["?b"]} == {("param", pn), CUR}
        return ok, T.show(t)[:300]

    def fsa_shape(self):
        """function_static_arguments(n): '(' e1 , ... , en ')' -- n expressions at level DefaultZero, separated by n-1
        commas (checked after every argument but the last, or before every argument but the first), one push each"""
        f = self.tb.fn("::parser::Parser::function_static_arguments")
        if f is None:
            return False, "function_static_arguments not found"
        t = self.tb.parser_term(f)
        GA = P("(try (call P.generate_ast (param self) (ctor OperatorCategory::DefaultZero)))")
        e = M("(seq (try (call P.get_next_token (param self))) (try (call P.check_paren (param self) (ctor Token::LeftParen))) (let ?args (call Vec::new)) (for (bind ?i) (range (lit 0 ?ty) (param ?n)) ?body) (try (call P.check_paren (param self) (ctor Token::RightParen))) (Ok (var ?args)))", t)
        if e is None:
            return False, T.show(t)[:400]
        body, ty = e["?body"], e["?ty"]
        COMMA = ("try", ("call", "P.check_paren", ("param", "self"), ("ctor", "Token::Comma")))
        after = ("if", ("op", "lt", ty, ("var", e["?i"]), ("op", "sub", ty, ("param", e["?n"]), ("lit", "1", ty))), COMMA, ("unit",))
        before = ("|", ("if", ("op", "gt", ty, ("var", e["?i"]), ("lit", "0", ty)), COMMA, ("unit",)), ("if", ("op", "eq", ty, ("var", e["?i"]), ("lit", "0", ty)), ("unit",), COMMA),
                  ("if", ("op", "ge", ty, ("var", e["?i"]), ("lit", "1", ty)), COMMA, ("unit",)))
        PUSH1 = (("let", "?a", GA), ("call", "Vec::push", ("var", e["?args"]), ("var", "?a")))
        PUSH2 = (("call", "Vec::push", ("var", e["?args"]), GA),)
        if M(("seq", ("let", "?a", GA), after, ("call", "Vec::push", ("var", e["?args"]), ("var", "?a"))), body) is not None:
            return True, "comma after every argument but the last (pushed after the comma)"
        for push in (PUSH1, PUSH2):
            if M(("seq",) + push + (after,), body) is not None:
                return True, "comma after every argument but the last"
            if M(("seq", before) + push, body) is not None:
                return True, "comma before every argument but the first"
        return False, T.show(t)[:400]

    def list_shape(self):
        """find_item_list: name, '(', [ e { ',' e } ], ')' with exactly one push per argument into a local vector"""
        fil = self.tb.fn("::parser::Parser::find_item_list")
        if fil is None:
            return None, "no find_item_list"
        t = self.tb.parser_term(fil)
        EQ = "<Token as cmp::PartialEq>::eq"
        e = M(("seq", ("try", ("call", "P.get_next_token", ("param", "self"))), ("try", ("call", "P.check_paren", ("param", "self"), ("param", "?st"))), ("let", "?args", ("call", "Vec::new")),
               ("loop", "?body"), ("Ok", ("var", "?args"))), t)
        NEXT_ = ("try", ("call", "P.get_next_token", ("param", "self")))
        if e is None:
            # the empty list decided before the loop (the guard `args.is_empty() && closer` can only hold in the first iteration):
            #   if closer { next; Ok(args) } else { loop { e; push; if ',' { next } else if closer { next; break } else { Err } }; Ok(args) }
            e2 = M(("seq", NEXT_, ("try", ("call", "P.check_paren", ("param", "self"), ("param", "?st"))), ("let", "?args", ("call", "Vec::new")),
                    ("if", ("call", EQ, ("param", "?en"), CUR), ("seq", NEXT_, ("|", ("Ok", ("var", "?args")), ("return", ("Ok", ("var", "?args"))))), ("seq", ("loop", "?body"), ("Ok", ("var", "?args"))))), t)
            if e2 is None:
                # ... or before the vector exists: if closer { next; return Ok(Vec::new()) }; let mut args = Vec::new(); loop {..}; Ok(args)
                EMPTY = ("|", ("Ok", ("call", "Vec::new")), ("return", ("Ok", ("call", "Vec::new"))), ("Ok", ("array",)), ("return", ("Ok", ("array",))))
                e2 = M(("seq", NEXT_, ("try", ("call", "P.check_paren", ("param", "self"), ("param", "?st"))),
                        ("if", ("call", EQ, ("param", "?en"), CUR), ("seq", NEXT_, EMPTY), ("seq", ("let", "?args", ("call", "Vec::new")), ("loop", "?body"), ("Ok", ("var", "?args"))))), t)
            if e2 is not None:
                args = ("var", e2["?args"])
                ok = M(("seq", ("let", "?a", ("try", ("call", "P.generate_ast", ("param", "self"), ("param", "?pr")))), ("call", "Vec::push", args, ("var", "?a")),
                        ("if", ("call", EQ, ("ctor", "Token::Comma"), CUR), NEXT_, ("if", ("call", EQ, ("param", e2["?en"]), CUR), ("seq", NEXT_, ("break",)), ("return", ("Err",))))), e2["?body"]) is not None
                return ok, ("" if ok else T.show(t)[:400])
            return False, T.show(t)[:400]
        args = ("var", e["?args"])
        ok = M(("seq",
                ("if", ("op", "and", "bool", ("call", "Vec::is_empty", args), ("call", EQ, ("param", "?en"), CUR)), ("seq", ("try", ("call", "P.get_next_token", ("param", "self"))), ("break",)), ("unit",)),
                ("let", "?a", ("try", ("call", "P.generate_ast", ("param", "self"), ("param", "?pr")))),
                ("call", "Vec::push", args, ("var", "?a")),
                ("if", ("call", EQ, ("ctor", "Token::Comma"), CUR), ("try", ("call", "P.get_next_token", ("param", "self"))),
                 ("if", ("call", EQ, ("param", "?en"), CUR), ("seq", ("try", ("call", "P.get_next_token", ("param", "self"))), ("break",)), ("return", ("Err",))))), e["?body"]) is not None
        return ok, ("" if ok else T.show(t)[:400])

    def mir_eof_gate(self):
        """Path-based form of the Eof gate on the MIR of parse(): in the CFG with the `current_token == Eof`
        edges removed, no block that builds `Ok(..)` into the return place is reachable from the entry; and every
        Eof test is dominated by the call to generate_ast.  Which comparisons are Eof tests is taken from THIR
        (all comparisons of self.current_token in parse() must be against Token::Eof)."""
        from .facts import CFG
        f = self.tb.fn("::parser::Parser::parse")
        if f is None or not f.mir:
            return False, "parse not found"
        t = self.tb.parser_term(f)
        cmps = []
        for s_ in subterms(t):
            if isinstance(s_, tuple) and len(s_) == 4 and s_[0] == "call" and s_[1] in ("<Token as cmp::PartialEq>::eq", "<Token as cmp::PartialEq>::ne") and (unify(CUR, s_[2]) is not None or unify(CUR, s_[3]) is not None):
                other = s_[3] if unify(CUR, s_[2]) is not None else s_[2]
                cmps.append(other)
        matches = [s_ for s_ in subterms(t) if isinstance(s_, tuple) and s_ and s_[0] == "match" and unify(CUR, s_[1]) is not None]
        if any(o != ("ctor", "Token::Eof") for o in cmps):
            return False, "parse() compares the current token with something other than Eof"
        tok = self.tb.adt("token::Token")
        eof_idx = [i for i, v in enumerate(tok["variants"]) if v["name"] == "Eof"] if tok else []
        if not eof_idx:
            return False, "Token::Eof not found"
        eof_idx = eof_idx[0]
        blocks = f.mir["blocks"]
        cfg = CFG(f.mir)
        dom = cfg.dominators()

        def def_of(local):
            for b in blocks:
                for st in b["stmts"]:
                    if st["k"] == "assign" and st["lhs"]["local"] == local and not st["lhs"]["proj"]:
                        return st["rv"]
            return None

        def is_cur_ref(op):
            if op.get("k") not in ("copy", "move") or op["p"]["proj"]:
                return False
            rv = def_of(op["p"]["local"])
            return bool(rv and rv["k"] == "ref" and [p.get("name") for p in rv["p"]["proj"] if p["k"] == "field"] == ["current_token"])
        gen_blocks = [i for i, b in enumerate(blocks) if b["term"]["k"] == "call" and (b["term"]["func"].get("fn") or {}).get("def", "").endswith("::generate_ast")]
        equal_edges = set()
        tests = 0
        for i, b in enumerate(blocks):
            tm = b["term"]
            if tm["k"] == "call" and (tm["func"].get("fn") or {}).get("def") in ("std::cmp::PartialEq::eq", "std::cmp::PartialEq::ne") and "token::Token" in ((tm["func"]["fn"].get("self_ty")) or ""):
                if not any(is_cur_ref(a) for a in tm["args"]):
                    continue
                is_ne = tm["func"]["fn"]["def"].endswith("::ne")
                d = tm["dest"]["local"]
                tgt = tm.get("target")
                if tgt is None:
                    continue
                sw = blocks[tgt]["term"]
                neg = False
                # optional `!x`
                for st in blocks[tgt]["stmts"]:
                    if st["k"] == "assign" and st["rv"]["k"] == "unop" and st["rv"]["op"] == "Not" and st["rv"]["a"].get("p", {}).get("local") == d:
                        d = st["lhs"]["local"]
                        neg = not neg
                if sw["k"] != "switch" or sw["discr"].get("p", {}).get("local") != d:
                    continue
                tests += 1
                zero = [tb_ for v, tb_ in sw["targets"] if v == "0"]
                truthy_is_equal = (not is_ne) != neg
                if truthy_is_equal:
                    equal_edges.add((tgt, sw["otherwise"]))
                    for v, tb_ in sw["targets"]:
                        if v != "0":
                            equal_edges.add((tgt, tb_))
                else:
                    for z in zero:
                        equal_edges.add((tgt, z))
                if not any(g in dom.get(tgt, ()) for g in gen_blocks):
                    return False, "an Eof test is not dominated by the call to generate_ast"
            if tm["k"] == "switch":
                dl = tm["discr"].get("p", {}).get("local")
                rv = None
                for st in b["stmts"]:
                    if st["k"] == "assign" and st["lhs"]["local"] == dl and st["rv"]["k"] == "discr":
                        rv = st["rv"]
                if rv is not None and [p.get("name") for p in rv["p"]["proj"] if p["k"] == "field"] == ["current_token"]:
                    tests += 1
                    for v, tb_ in tm["targets"]:
                        if v == str(eof_idx):
                            equal_edges.add((i, tb_))
                    if not any(g in dom.get(i, ()) for g in gen_blocks):
                        return False, "an Eof test is not dominated by the call to generate_ast"
        if tests == 0:
            return False, "no test of the current token against Eof on any path of parse()"
        ok_blocks = [i for i, b in enumerate(blocks) if not b["cleanup"] and any(st["k"] == "assign" and st["lhs"]["local"] == 0 and not st["lhs"]["proj"] and st["rv"]["k"] == "aggregate" and st["rv"]["ak"] == "adt" and st["rv"]["of"].get("variant") == "Ok" for st in b["stmts"])]
        # calls returning straight into _0 (e.g. `self.generate_ast(..)` as tail expression) also produce Ok values
        tail_calls = [i for i, b in enumerate(blocks) if b["term"]["k"] == "call" and b["term"]["dest"]["local"] == 0 and not b["term"]["dest"]["proj"] and not (b["term"]["func"].get("fn") or {}).get("def", "").endswith("from_residual")]
        seen = set()
        st_ = [0]
        while st_:
            x = st_.pop()
            if x in seen:
                continue
            seen.add(x)
            for y in cfg.succ[x]:
                if (x, y) not in equal_edges:
                    st_.append(y)
        bad = [i for i in ok_blocks + tail_calls if i in seen]
        if bad:
            return False, "a path reaches `Ok(..)` (block %s) without passing the `current_token == Eof` edge" % bad
        return True, "%d Eof test(s); every path to Ok(..) passes an equal-to-Eof edge after generate_ast" % tests
