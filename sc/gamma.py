"""Relational check between the two branches of the hand-written Lanczos gamma (C10 sibling rule):
the `a < 0.5` branch must be the reflection  pi / (sin(pi a) * G(1 - a))  of the other branch G.
Only the *structure* is compared (affine sub-expressions in `a`, coefficient lists, constants);
the accuracy of the approximation is not decided."""
from fractions import Fraction
from . import thir as T
from .pat import M, subterms


def num(t):
    e = M(("lit", "?v", "?t"), t)
    if e is not None:
        try:
            return Fraction(str(e["?v"]))
        except (ValueError, ZeroDivisionError):
            return None
    e = M(("call", "Decimal::new", ("lit", "?m", "i64"), ("lit", "?s", "u32")), t)
    if e is not None:
        return Fraction(int(e["?m"]), 10 ** int(e["?s"]))
    return None


def strip_try(t):
    while isinstance(t, tuple) and len(t) == 2 and t[0] == "try":
        t = t[1]
    return t


def affine(t, pname):
    """term -> (alpha, beta) meaning alpha*a + beta, or None"""
    t = strip_try(t)
    if t == ("param", pname):
        return (Fraction(1), Fraction(0))
    v = num(t)
    if v is not None:
        return (Fraction(0), v)
    if isinstance(t, tuple) and t:
        if t[0] == "op" and t[1] in ("add", "sub") and len(t) == 5:
            x, y = affine(t[3], pname), affine(t[4], pname)
        elif t[0] == "call" and t[1] in ("Decimal::checked_add", "Decimal::checked_sub") and len(t) == 4:
            x, y = affine(t[2], pname), affine(t[3], pname)
        else:
            return None
        if x is None or y is None:
            return None
        sub = (t[0] == "op" and t[1] == "sub") or (t[0] == "call" and t[1].endswith("checked_sub"))
        return (x[0] - y[0], x[1] - y[1]) if sub else (x[0] + y[0], x[1] + y[1])
    return None


def reflect(ab):
    """substitute a -> 1 - a"""
    return (-ab[0], ab[0] + ab[1])


def branch_facts(br, pname):
    """(sum terms [(coeff, affine denominator)], power base numerator affine, exponent affine, literals multiplying the result)"""
    terms = []
    for s in subterms(br):
        e = M(("setop", "add", "f64", ("var", "?m"), ("op", "div", "f64", "?c", "?d")), s)
        if e is None:
            e = M(("set", ("var", "?m"), ("try", ("call", "Decimal::checked_add", ("var", "?m"), ("try", ("call", "Decimal::checked_div", "?c", "?d"))))), s)
        if e is not None:
            c = num(e["?c"])
            d = affine(e["?d"], pname)
            terms.append((c, d))
    base = expo = None
    for s in subterms(br):
        if isinstance(s, tuple) and len(s) == 4 and s[0] == "call" and s[1] in ("f64::powf", "<Decimal as rust_decimal::MathematicalOps>::checked_powd"):
            b = strip_try(s[2])
            e = M(("op", "div", "f64", "?n", "_"), b) or M(("call", "Decimal::checked_div", "?n", "_"), b)
            if e is not None:
                base = affine(e["?n"], pname)
            expo = affine(s[3], pname)
    has_sin = any(isinstance(s, tuple) and len(s) >= 3 and s[0] == "call" and s[1] in ("f64::sin", "<Decimal as rust_decimal::MathematicalOps>::checked_sin") for s in subterms(br))
    return terms, base, expo, has_sin


def check_gamma(term, pname):
    """Returns list of problems (empty = the reflection branch is the reflection of the direct branch)."""
    probs = []
    cond = None
    for s in subterms(term):
        if isinstance(s, tuple) and len(s) == 4 and s[0] == "if":
            c = s[1]
            if M(("op", "lt", "f64", ("param", pname), ("lit", "?h", "f64")), c) is not None or (isinstance(c, tuple) and len(c) == 4 and c[0] == "call" and c[1].endswith("cmp::PartialOrd>::lt") and c[2] == ("param", pname)):
                cond = s
                break
    if cond is None:
        return ["no `if a < 0.5 {reflection} else {direct}` structure found"]
    refl, direct = branch_facts(cond[2], pname), branch_facts(cond[3], pname)
    if not refl[3]:
        probs.append("the a < 0.5 branch does not use sin(pi a) (not a reflection)")
    if direct[3]:
        probs.append("the direct branch unexpectedly uses sin")
    if len(refl[0]) != len(direct[0]) or len(direct[0]) < 5:
        probs.append("different number of Lanczos terms in the two branches (%d vs %d)" % (len(refl[0]), len(direct[0])))
        return probs
    for k, ((c1, d1), (c2, d2)) in enumerate(zip(refl[0], direct[0]), 1):
        if c1 != c2:
            probs.append("coefficient %d differs between the branches: %s vs %s" % (k, c1, c2))
        if d1 is None or d2 is None or d1 != reflect(d2):
            probs.append("term %d: reflection denominator is %s, expected %s (= direct denominator with a -> 1-a)" % (k, fmt(d1), fmt(reflect(d2)) if d2 else None))
    if direct[1] is None or refl[1] is None or refl[1] != reflect(direct[1]):
        probs.append("power base: reflection branch uses (%s)/e, expected (%s)/e (= direct base with a -> 1-a)" % (fmt(refl[1]), fmt(reflect(direct[1])) if direct[1] else None))
    if direct[2] is None or refl[2] is None or refl[2] != reflect(direct[2]):
        probs.append("power exponent: reflection branch uses %s, expected %s" % (fmt(refl[2]), fmt(reflect(direct[2])) if direct[2] else None))
    return probs


def fmt(ab):
    if ab is None:
        return "?"
    a, b = ab
    s = ""
    if a == 1:
        s = "a"
    elif a == -1:
        s = "-a"
    elif a != 0:
        s = "%s*a" % a
    if b != 0 or not s:
        s += (" + " if s and b > 0 else (" - " if s else "")) + (str(float(abs(b))) if s else str(float(b)))
    return s
