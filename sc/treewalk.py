"""Typed tree-walk rule (C20; premise of C04): the evaluator uses a Node only by handing it to the recursive
evaluation function.  Decided on the typed THIR of every function of the evaluator outside the parser / tokenizer
(the evaluation function, its helpers, their closures), by the *type* of each expression and pattern, so that the
spelling (helper functions, iterator chains, borrowed or owned trees) does not matter:

  P  no pattern destructures a Node, except the arms of the walker's own top-level match, which are flat
     (constructor applied to binders / wildcards, no guard);
  U  a Node-typed value (through any number of & / Box / Arc) is only moved, borrowed, dereferenced, cloned, bound to a
     plain variable, wrapped in Option/Result, returned, or passed to the walker or to a crate-local helper
     (whose body is subject to the same rule); it is never compared, formatted, or passed to anything else;
  L  a collection of Nodes is never handed to a function that could look inside its elements through a trait
     (==, contains, sort, Debug, ...);
  B  no Node is constructed.
Returns a list of (key-suffix, where, detail) violations and the number of Node-typed uses inspected."""
import re
from . import thir as T

WRAP = re.compile(r"^(&(?:'\w+ )?(?:mut )?|std::boxed::Box<|std::sync::Arc<|std::rc::Rc<|std::option::Option<)")
LOOKS_INSIDE = {"eq", "ne", "contains", "starts_with", "ends_with", "binary_search", "binary_search_by", "binary_search_by_key", "sort", "sort_unstable", "sort_by", "sort_unstable_by",
                "sort_by_key", "dedup", "dedup_by", "dedup_by_key", "fmt", "partial_cmp", "cmp", "hash", "to_string", "lt", "le", "gt", "ge", "max", "min", "new_debug", "new_display"}
TRANSPARENT_CALLS = ("std::clone::Clone::clone", "std::ops::Deref::deref", "std::ops::DerefMut::deref_mut", "std::borrow::Borrow::borrow", "std::convert::AsRef::as_ref",
                     "std::boxed::Box::<T>::new", "std::sync::Arc::<T>::new", "std::convert::Into::into", "std::convert::From::from", "std::borrow::ToOwned::to_owned",
                     "std::option::Option::<T>::cloned", "std::option::Option::<&T>::cloned", "std::mem::take", "std::ops::Try::branch", "std::ops::FromResidual::from_residual")


def strip(ty, node):
    """number of wrappers removed, or None if ty is not a (wrapped) Node"""
    if not isinstance(ty, str):
        return None
    t = ty
    for _ in range(8):
        if t == node:
            return True
        m = WRAP.match(t)
        if not m:
            return None
        t = t[m.end():]
        if m.group(1).endswith("<") and t.endswith(">"):
            t = t[:-1]
            # Box<T, A> / Arc<T, A>: drop an allocator argument
            t = re.sub(r", std::alloc::Global$", "", t)
    return None


def analyse(F, ev, walker_paths, local_fn_paths):
    node = "%s::ast::Node" % ev
    out = []
    n_uses = [0]
    fns = [f for f in F.fns if f.evaluator == ev and f.thir and not f.derived and "::parser::" not in f.key and "::tokenizer::" not in f.key and "::token::" not in f.key]
    scope_paths = {f.path for f in fns}
    for f in fns:
        body = T.fold(f.thir["body"])
        is_walker = f.path in walker_paths
        top = None
        if is_walker:
            pid = T.param_ids(f)[0][0] if T.param_ids(f) else None
            top = T.find_match_on(body, lambda s: T.strip_wrappers(s).get("k") == "var" and T.strip_wrappers(s).get("id") == pid)
        where = "%s (%s)" % (f.key, f.file)

        def pat_has_node_variant(p):
            found = []

            def w(x):
                if isinstance(x, dict):
                    if x.get("k") == "variant" and x.get("adt") == node:
                        found.append(x)
                    for v in x.values():
                        w(v)
                elif isinstance(x, list):
                    for v in x:
                        w(v)
            w(p)
            return found

        def flat_arm(p):
            """top-level arm pattern: (deref patterns of) one Node constructor (or an or-pattern of them) over binders / wildcards"""
            k = p.get("k")
            if k in ("deref", "derefpat"):
                return flat_arm(p["sub"])
            if k == "or":
                return all(flat_arm(q) for q in p["pats"])
            if k in ("wild", "bind"):
                return not p.get("sub")
            if k == "variant" and p.get("adt") == node:
                for s in p.get("sub") or []:
                    q = s.get("pat") if isinstance(s, dict) and "pat" in s else s
                    while isinstance(q, dict) and q.get("k") in ("deref", "derefpat"):
                        q = q["sub"]
                    if not (isinstance(q, dict) and q.get("k") in ("wild", "bind") and not q.get("sub")):
                        return False
                return True
            return False

        def visit(e, parent, role):
            if isinstance(e, list):
                for x in e:
                    visit(x, parent, role)
                return
            if not isinstance(e, dict):
                return
            k = e.get("k")
            # --- patterns
            if k == "match":
                is_top = top is not None and e is top
                for a in e.get("arms", []):
                    if is_top:
                        if not flat_arm(a["pat"]) or a.get("guard") is not None:
                            out.append(("peek|%s" % f.short, where, "line %s: arm of the tree walk looks inside a child (nested pattern or guard)" % a.get("sp", ["?"])[0]))
                    elif pat_has_node_variant(a["pat"]):
                        out.append(("peek|%s" % f.short, where, "line %s: pattern destructures a Node outside the tree walk's own match" % e.get("sp", ["?"])[0]))
            if k in ("letx", "let") and e.get("pat") is not None and pat_has_node_variant(e["pat"]):
                out.append(("peek|%s" % f.short, where, "line %s: `let`/`if let` pattern destructures a Node" % (e.get("sp") or ["?"])[0]))
            if k == "for" and pat_has_node_variant(e.get("pat")):
                out.append(("peek|%s" % f.short, where, "for pattern destructures a Node"))
            # --- construction
            if k == "adt" and e.get("adt") == node:
                out.append(("builds|%s" % f.short, where, "line %s: constructs Node::%s" % (e.get("sp", ["?"])[0], e.get("variant"))))
            # --- uses of Node-typed values
            ty = e.get("ty")
            if strip(ty, node) and parent is not None and k not in ("adt",):
                n_uses[0] += 1
                pk = parent.get("k")
                ok = True
                why = ""
                if pk in ("borrow", "deref", "coerce", "byuse", "block", "scope", "expr", "return", "if", "tuple", "field", "use", "rawborrow", "break", "neverToAny", "cast", "try", "for", "loop"):
                    ok = True
                elif pk == "match":
                    ok = True     # patterns are checked above (rule P); the scrutinee itself is only inspected through them
                elif pk in ("let", "letx", "assign"):
                    ok = True
                elif pk == "adt":
                    ok = parent.get("adt") in ("std::option::Option", "std::result::Result")
                    why = "placed in a %s" % parent.get("adt")
                elif pk == "call":
                    fj = parent.get("fn") or {}
                    inst = fj.get("inst") or fj.get("def") or ""
                    d = fj.get("def") or ""
                    base = re.sub(r"::<[^<>]*(?:<[^<>]*>[^<>]*)*>", "", d).split("::")[-1]
                    if role == "callee":
                        ok = True
                    elif inst in walker_paths or d in walker_paths:
                        ok = True
                    elif fj.get("inst_local") and (inst in scope_paths or d in scope_paths):
                        ok = True
                    elif d in TRANSPARENT_CALLS or d.startswith(("std::clone::Clone::clone", "std::ops::Deref::deref", "std::boxed::Box::", "std::sync::Arc::", "std::option::Option::", "std::result::Result::", "std::iter::", "core::slice::", "std::slice::", "std::vec::Vec::", "std::mem::")) and base not in LOOKS_INSIDE:
                        ok = True
                    else:
                        ok = False
                        why = "passed to %s" % (fj.get("inst_full") or d)
                elif pk == "binary":
                    ok = False
                    why = "operand of %s" % parent.get("op")
                elif pk in ("closure",):
                    ok = True
                else:
                    ok = False
                    why = "used in a `%s` expression" % pk
                if not ok:
                    out.append(("use|%s" % f.short, where, "line %s: a Node is %s (only the tree walk may receive it)" % ((e.get("sp") or ["?"])[0], why)))
            # --- collections of nodes handed to something that looks inside
            if k == "call":
                fj = e.get("fn") or {}
                d = fj.get("def") or ""
                base = re.sub(r"::<[^<>]*(?:<[^<>]*>[^<>]*)*>", "", d).split("::")[-1]
                if base in LOOKS_INSIDE and not fj.get("inst_local"):
                    for a in e.get("args", []):
                        aty = a.get("ty") if isinstance(a, dict) else None
                        if isinstance(aty, str) and node in aty:
                            out.append(("use|%s" % f.short, where, "line %s: Nodes handed to %s, which can look inside them" % ((e.get("sp") or ["?"])[0], fj.get("inst_full") or d)))
                            break
            nxt = e if k is not None else parent     # arm / field records are transparent
            for kk, v in e.items():
                if kk in ("sp", "ty", "fn", "pat"):
                    continue
                if isinstance(v, (dict, list)):
                    visit(v, nxt, ("callee" if kk == "callee" else kk) if k is not None else role)
        visit(body, None, None)
        if is_walker and top is not None:
            # the walk descends: its own argument is used only as the scrutinee of the top-level match (a recursive call on
            # the argument itself, not on a child, would not terminate)
            uses = []

            def cu(x, inside_scrut):
                if isinstance(x, dict):
                    if x.get("k") in ("var", "upvar") and x.get("id") == pid and not inside_scrut:
                        uses.append(x)
                    for kk, v in x.items():
                        cu(v, inside_scrut or (x is top and kk == "scrut"))
                elif isinstance(x, list):
                    for v in x:
                        cu(v, inside_scrut)
            cu(body, False)
            if uses:
                out.append(("self|%s" % f.short, where, "the tree walk uses its whole argument outside the top-level match (%d uses): a recursive call on it would not descend" % len(uses)))
    return out, n_uses[0], len(fns)
