"""Fact extraction: runs the scfacts rustc driver over a source tree (type-check
only, nothing is executed) and returns the JSON fact base.  Results are cached
by a content hash of the analysed tree + driver + configuration, so a cached
fact base is by construction the fact base of the current tree."""
import hashlib, json, os, shutil, subprocess, sys, tempfile, time

VERIF = os.path.dirname(os.path.dirname(os.path.abspath(__file__)))
DRIVER = os.path.join(VERIF, "driver", "target", "release", "scfacts")
ALL_FEATURES = ["eval_complex", "eval_decimal", "eval_f64", "eval_i64", "eval_number"]


def repo_dir():
    return os.environ.get("SC_REPO", "/repo")


def _sysroot():
    return subprocess.check_output(["rustc", "+nightly", "--print", "sysroot"], text=True).strip()


_SYSROOT = None


def sysroot():
    global _SYSROOT
    if _SYSROOT is None:
        _SYSROOT = _sysroot()
    return _SYSROOT


def source_files(repo):
    out = []
    for base in ("src",):
        for root, dirs, files in os.walk(os.path.join(repo, base)):
            dirs.sort()
            for f in sorted(files):
                out.append(os.path.join(root, f))
    for f in ("Cargo.toml", "Cargo.lock"):
        p = os.path.join(repo, f)
        if os.path.exists(p):
            out.append(p)
    return out


def tree_hash(repo):
    h = hashlib.sha256()
    for p in source_files(repo):
        h.update(os.path.relpath(p, repo).encode())
        h.update(b"\0")
        with open(p, "rb") as fh:
            h.update(fh.read())
        h.update(b"\0")
    return h.hexdigest()


def driver_hash():
    if not os.path.exists(DRIVER):
        raise SystemExit("scfacts driver not built: run MANIFEST.setup_cmd (./setup.sh)")
    h = hashlib.sha256()
    with open(DRIVER, "rb") as fh:
        h.update(fh.read())
    return h.hexdigest()[:16]


def cache_root():
    d = os.path.join(os.environ.get("TMPDIR", "/tmp"), "scverif-cache")
    os.makedirs(d, exist_ok=True)
    return d


def config_name(features, overflow, deps):
    if features is None:
        fs = "default"
    else:
        fs = "+".join(sorted(features)) or "none"
    return "%s.ovf-%s%s" % (fs, "on" if overflow else "off", ".deps" if deps else "")


def cargo_env(out_dir, target_dir, overflow, deps):
    env = dict(os.environ)
    env["LD_LIBRARY_PATH"] = os.path.join(sysroot(), "lib") + ":" + env.get("LD_LIBRARY_PATH", "")
    env["RUSTFLAGS"] = "-Zmir-opt-level=0 -Awarnings -Cdebug-assertions=off -Coverflow-checks=%s" % (
        "on" if overflow else "off")
    env.pop("RUSTC_WRAPPER", None)
    env.pop("RUSTC_WORKSPACE_WRAPPER", None)
    env["RUSTC_WRAPPER" if deps else "RUSTC_WORKSPACE_WRAPPER"] = DRIVER
    env["SCFACTS_OUT"] = out_dir
    env["CARGO_TARGET_DIR"] = target_dir
    env["CARGO_NET_OFFLINE"] = "true"
    env["CARGO_TERM_COLOR"] = "never"
    if deps:
        env["SCFACTS_THIR"] = "0"
    return env


class ExtractError(Exception):
    pass


def extract(features=None, overflow=True, deps=False, repo=None, target_dir=None, keep_target=False, crate="string_calculator"):
    """Returns (facts_dir, info). facts_dir contains <crate>.facts.json files."""
    repo = repo or repo_dir()
    th = tree_hash(repo)
    key = hashlib.sha256(("%s|%s|%s" % (th, driver_hash(), config_name(features, overflow, deps))).encode()).hexdigest()[:24]
    cdir = os.path.join(cache_root(), key)
    marker = os.path.join(cdir, "OK")
    if os.path.exists(marker):
        _touch(cdir)
        return cdir, {"cached": True, "tree_hash": th, "config": config_name(features, overflow, deps)}
    # one extractor per key: concurrent checks of the same tree wait for the first one instead of
    # replacing a directory another process may be reading
    import fcntl
    lock = open(os.path.join(cache_root(), key + ".lock"), "w")
    fcntl.flock(lock, fcntl.LOCK_EX)
    try:
        if os.path.exists(marker):
            _touch(cdir)
            return cdir, {"cached": True, "tree_hash": th, "config": config_name(features, overflow, deps)}
        return _extract_locked(repo, th, cdir, marker, features, overflow, deps, target_dir, keep_target, crate)
    finally:
        fcntl.flock(lock, fcntl.LOCK_UN)
        lock.close()


def _touch(d):
    try:
        os.utime(d, None)
    except OSError:
        pass


def _extract_locked(repo, th, cdir, marker, features, overflow, deps, target_dir, keep_target, crate):
    # keep the cache bounded (each entry is ~10-25 MB; runs over hundreds of scratch trees would otherwise fill the disk): beyond 400
    # entries the least recently used go, except those touched in the last ten minutes
    try:
        prune_cache(400, min_age=600)
    except OSError:
        pass
    tmp_out = tempfile.mkdtemp(prefix="scf-out-", dir=cache_root())
    own_target = target_dir is None
    if own_target:
        target_dir = tempfile.mkdtemp(prefix="scf-tgt-", dir=cache_root())
    try:
        cmd = ["cargo", "+nightly", "check", "--offline", "--lib"]
        if features is not None:
            cmd += ["--no-default-features"]
            if features:
                cmd += ["--features", ",".join(sorted(features))]
        t0 = time.time()
        # a shared target dir could replay an old run: force the crate itself to be rebuilt
        fp = os.path.join(target_dir, "debug", ".fingerprint")
        if os.path.isdir(fp):
            for d in os.listdir(fp):
                if d.startswith("string_calculator-"):
                    shutil.rmtree(os.path.join(fp, d), ignore_errors=True)
        p = subprocess.run(cmd, cwd=repo, env=cargo_env(tmp_out, target_dir, overflow, deps),
                           stdout=subprocess.PIPE, stderr=subprocess.STDOUT, text=True)
        dt = time.time() - t0
        ok = p.returncode == 0
        info = {"cached": False, "tree_hash": th, "config": config_name(features, overflow, deps),
                "cargo_cmd": " ".join(cmd), "wall_s": round(dt, 2), "build_ok": ok}
        if not ok:
            shutil.rmtree(tmp_out, ignore_errors=True)
            raise ExtractError("cargo check failed for %s:\n%s" % (config_name(features, overflow, deps), p.stdout[-3000:]))
        want = os.path.join(tmp_out, crate + ".facts.json")
        if features != [] and not os.path.exists(want):
            shutil.rmtree(tmp_out, ignore_errors=True)
            raise ExtractError("driver produced no fact file (freshness cache?) for %s\n%s" % (info["config"], p.stdout[-2000:]))
        with open(os.path.join(tmp_out, "info.json"), "w") as fh:
            json.dump(info, fh)
        if os.path.exists(cdir):
            shutil.rmtree(cdir, ignore_errors=True)
        os.rename(tmp_out, cdir)
        with open(marker, "w") as fh:
            fh.write("ok")
        return cdir, info
    finally:
        if own_target and not keep_target:
            shutil.rmtree(target_dir, ignore_errors=True)
        if os.path.exists(tmp_out):
            shutil.rmtree(tmp_out, ignore_errors=True)


def load(features=None, overflow=True, deps=False, repo=None, crate="string_calculator", target_dir=None):
    d, info = extract(features, overflow, deps, repo, target_dir=target_dir, crate=crate)
    p = os.path.join(d, crate + ".facts.json")
    with open(p) as fh:
        doc = json.load(fh)
    doc["_info"] = info
    doc["_dir"] = d
    return doc


def list_crates(facts_dir):
    return sorted(f[:-len(".facts.json")] for f in os.listdir(facts_dir) if f.endswith(".facts.json"))


def prune_cache(max_entries=120, min_age=3600):
    root = cache_root()
    ents = [os.path.join(root, d) for d in os.listdir(root)]
    ents = [e for e in ents if os.path.isdir(e)]
    if len(ents) <= max_entries:
        return
    ents.sort(key=lambda e: os.path.getmtime(e))
    now = time.time()
    for e in ents[: len(ents) - max_entries]:
        if now - os.path.getmtime(e) < min_age:      # possibly in use by a concurrent check
            continue
        shutil.rmtree(e, ignore_errors=True)
    for f in os.listdir(root):
        if f.endswith(".lock") and not os.path.isdir(os.path.join(root, f[:-5])):
            try:
                os.remove(os.path.join(root, f))
            except OSError:
                pass
