"""Positive examples for the zero-expected rules (DESIGN §3.6): fixtures/canary contains one instance of
every construct those rules forbid.  A rule that does not fire on the canary is broken (fail closed)."""
import os
from . import extract
from .facts import Facts

CANARY = os.path.join(extract.VERIF, "fixtures", "canary")
_cache = {}


def facts(overflow=True):
    k = ("facts", overflow)
    if k not in _cache:
        _cache[k] = Facts(extract.load(repo=CANARY, crate="sc_canary", overflow=overflow))
    return _cache[k]


def expect(run, name, got, want_substrings):
    missing = [w for w in want_substrings if not any(w in g for g in got)]
    if missing:
        run.fail_closed("canary silent: rule %s did not report %s on fixtures/canary" % (name, missing), "reported: %s" % sorted(got)[:12])
    run.coverage_extra.setdefault("canary", {})[name] = {"expected": want_substrings, "fired": not missing}
    return not missing


def panic_canary(run):
    from .panics import mir_edges, edge_key
    try:
        F = facts()
    except extract.ExtractError as e:
        run.fail_closed("canary extraction failed", str(e)[-600:])
        return
    got = set()
    for f in F.fns:
        if f.path in F.reach() and f.mir:
            edges, _, _, _ = mir_edges(F, f)
            for e in edges:
                got.add("%s %s" % edge_key(e))
    expect(run, "C01 panic-edge census", got, ["Option::unwrap", "call Index", "assert Overflow(Add)", "assert DivisionByZero", "impl i64>::pow"])


def effect_canary(run):
    from .report import Run
    from .props.c16 import census_crate
    try:
        F = facts()
    except extract.ExtractError as e:
        run.fail_closed("canary extraction failed", str(e)[-600:])
        return
    tmp = Run("C16", run.tier, run.level)
    census_crate(tmp, F.doc, "canary", full=True)
    got = {v["key"] for v in tmp.violations}
    expect(run, "C16 effect census", got, ["static|sc_canary|eval_f64::COUNTER", "static|sc_canary|eval_f64::LAST", "interior-mut-local", "unsafe-block", "ambient|", "static-use"])
    tl = [g for g in got if "CALLS" in g]
    if not tl:
        run.fail_closed("canary silent: thread_local static not reported", str(sorted(got))[:300])


def i64_canary(run):
    from .report import Run
    from .props import c06
    try:
        F = facts()
    except extract.ExtractError as e:
        run.fail_closed("canary extraction failed", str(e)[-600:])
        return
    tmp = Run("C06", run.tier, run.level)
    # the census looks at eval_i64::ast; point it at the canary's module
    saved = []
    for f in F.fns:
        if f.key.startswith("eval_f64::ast::"):
            saved.append((f, f.key))
    import re

    class _F:
        pass
    for f, k in saved:
        f.key = k.replace("eval_f64::ast::", "eval_i64::ast::")
        f.j["path"] = f.key
    try:
        type(saved[0][0]).evaluator = property(lambda self: "eval_i64" if "eval_i64::" in self.key else ("eval_f64" if "eval_f64::" in self.key else None))
        c06.typed_census(tmp, F, "canary")
    finally:
        from .facts import Fn
        Fn.evaluator = _orig_evaluator
        for f, k in saved:
            f.key = k
            f.j["path"] = k
    got = {v["key"] for v in tmp.violations}
    expect(run, "C06 typed-operation census", got, ["raw-op|eval|AddWithOverflow|i64", "raw-op|eval|Div|i64", "narrowing-cast|eval|u32", "wrapping-call|eval|wrapping_mul", "wrapping-call|eval|pow"])


def loop_canary(run):
    from collections import defaultdict
    from .report import Run
    from .props import c02
    from .tables import EvTables
    try:
        F = facts()
    except extract.ExtractError as e:
        run.fail_closed("canary extraction failed", str(e)[-600:])
        return
    tmp = Run("C02", run.tier, run.level)
    tb = EvTables(F, "eval_f64")
    f = F.by_key.get("eval_f64::ast::eval")
    t = tb.fn_term(f, inline_pure=True)
    c02.classify_loops(tmp, f, t, {"MC": set()}, [], defaultdict(int))
    got = {v["key"] for v in tmp.violations}
    expect(run, "C02 loop classification", got, ["loop|eval_f64::ast::eval|unbounded", "loop|eval_f64::ast::eval|range-unbounded"])


from .facts import Fn as _Fn
_orig_evaluator = _Fn.evaluator
