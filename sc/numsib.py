"""Sibling agreement of the hand-written numeric kernels (Lambert W, iterated logarithm) across the f64,
Number and Decimal copies (C10 sibling rule).  Each copy is reduced to an untyped one-iteration state
transformer (initial state, exit condition, update expressions, iteration cap); the three must be equal.
What the kernels converge to is not decided."""
from fractions import Fraction
from . import thir as T
from .pat import M, subterms

ARITH_CALLS = {"Decimal::checked_add": "add", "Decimal::checked_sub": "sub", "Decimal::checked_mul": "mul", "Decimal::checked_div": "div",
               "f64::exp": "exp", "<Decimal as rust_decimal::MathematicalOps>::checked_exp": "exp",
               "f64::log10": "log10", "<Decimal as rust_decimal::MathematicalOps>::checked_log10": "log10",
               "f64::floor": "floor", "Decimal::floor": "floor", "f64::ceil": "ceil", "Decimal::ceil": "ceil",
               "<i32 as cmp::Ord>::min": "min", "<i32 as cmp::Ord>::max": "max", "Decimal::max": "max", "Decimal::min": "min",
               "<Decimal as cmp::PartialOrd>::le": "le", "<Decimal as cmp::PartialOrd>::gt": "gt", "<Decimal as cmp::PartialOrd>::lt": "lt", "<Decimal as cmp::PartialOrd>::ge": "ge",
               "<Decimal as ops::Neg>::neg": "neg",
               "f64::ln": "ln", "<Decimal as rust_decimal::MathematicalOps>::checked_ln": "ln"}


def number(t):
    e = M(("lit", "?v", "?t"), t)
    if e is not None:
        try:
            return Fraction(str(e["?v"]))
        except (ValueError, ZeroDivisionError):
            return None
    e = M(("call", "Decimal::new", ("lit", "?m", "i64"), ("lit", "?s", "u32")), t)
    if e is not None:
        return Fraction(int(e["?m"]), 10 ** int(e["?s"]))
    if t in (("const", "Decimal::ZERO", None),):
        return Fraction(0)
    if t in (("const", "Decimal::ONE", None),):
        return Fraction(1)
    return None


def erase(t, inputs):
    """typed term -> untyped arithmetic term; `inputs` maps argument terms to role names"""
    if t in inputs:
        return inputs[t]
    if isinstance(t, tuple) and len(t) == 3 and t[0] == "const" and t[1] in ("std::f64::consts::E", "core::f64::consts::E", "Decimal::E"):
        return ("e",)        # Euler's number in the value type of the copy
    n = number(t)
    if n is not None:
        return ("num", str(n))
    if not isinstance(t, tuple) or not t:
        return t
    h = t[0]
    if h == "try":
        return erase(t[1], inputs)
    if h == "cast":
        return erase(t[3], inputs)
    if h == "match" and len(t) == 4:
        # Number as f64:  match x { Integer(i) => i as f64, Float(f) => f }
        arms = {a[0][1]: a for a in t[2:] if isinstance(a[0], tuple) and a[0][0] == "pvar"}
        if set(arms) == {"Number::Integer", "Number::Float"}:
            return erase(t[1], inputs)
    if h == "op" and len(t) == 5:
        return (t[1], erase(t[3], inputs), erase(t[4], inputs))
    if h == "un" and len(t) == 4:
        if t[1] == "not":
            x = erase(t[3], inputs)
            neg = {"gt": "le", "ge": "lt", "lt": "ge", "le": "gt"}
            if isinstance(x, tuple) and x and x[0] in neg:
                return (neg[x[0]],) + x[1:]
            return ("not", x)
        return (t[1], erase(t[3], inputs))
    if h == "call" and isinstance(t[1], str) and t[1] in ARITH_CALLS:
        return (ARITH_CALLS[t[1]],) + tuple(erase(x, inputs) for x in t[2:])
    if h == "call" and t[1] in ("Option::unwrap_or",) and len(t) == 4:
        return erase(t[2], inputs)   # the fallback for an undefined intermediate is failure handling, erased like Err/None
    if h == "call" and isinstance(t[1], str) and t[1].endswith("ToPrimitive>::to_i32") and len(t) == 3:
        return erase(t[2], inputs)
    if h == "bindopt" and len(t) == 4:
        # x.and_then(|v| body)  ==  body[v := x]   (failure handling erased)
        body = erase(t[3], inputs)
        return subst(body, {t[2][1]: erase(t[1], inputs)}) if isinstance(t[2], tuple) and t[2][0] == "bind" else ("bindopt", erase(t[1], inputs), body)
    return tuple(erase(x, inputs) for x in t)


def subst(t, env):
    if isinstance(t, tuple):
        if len(t) == 2 and t[0] == "var" and t[1] in env:
            return env[t[1]]
        return tuple(subst(x, env) for x in t)
    return t


def _exits(t):
    """the branch leaves the loop (break / return) and does not update loop state"""
    leaves, sets = [False], [False]

    def w(x):
        if isinstance(x, tuple) and x:
            if x[0] in ("break", "return"):
                leaves[0] = True
            if x[0] in ("set", "setop"):
                sets[0] = True
            for y in x[1:]:
                w(y)
    w(t)
    return leaves[0] and not sets[0]


def loop_step(term, inputs):
    """First `for` loop of the term: (range term, initial values of mutable vars, exit condition, updates)"""
    init = {}
    loop = None

    def find(t):
        nonlocal loop
        if isinstance(t, tuple) and t:
            if t[0] == "seq":
                for x in t[1:]:
                    e = M(("let", "?m", "?v"), x)
                    if e is not None and loop is None and isinstance(e["?m"], str) and e["?m"].startswith("m"):
                        init[e["?m"]] = erase(e["?v"], inputs)
                    find(x)
            elif t[0] == "for" and loop is None:
                loop = t
            else:
                for x in t[1:]:
                    find(x)
    find(term)
    if loop is None:
        return None
    rng = erase(loop[2], inputs)
    env = {}
    exit_cond = None
    exit_val = None

    def run(body):
        nonlocal exit_cond, exit_val
        items = body[1:] if isinstance(body, tuple) and body and body[0] == "seq" else (body,)
        for st in items:
            if not isinstance(st, tuple) or not st:
                continue
            if st[0] == "let":
                env[st[1]] = subst(erase(st[2], inputs), env)
            elif st[0] == "set" and isinstance(st[1], tuple) and st[1][0] == "var":
                env[st[1][1]] = subst(erase(st[2], inputs), env)
            elif st[0] == "setop" and isinstance(st[3], tuple) and st[3][0] == "var":
                old = env.get(st[3][1], ("var", st[3][1]))
                env[st[3][1]] = (st[1], old, subst(erase(st[4], inputs), env))
            elif st[0] == "if" and len(st) == 4:
                c, ex, cont = st[1], st[2], st[3]
                if not _exits(ex) and _exits(cont):
                    # (if c continue exit): orientation is irrelevant, the exit test is `not c`
                    c, ex, cont = ("un", "not", "bool", c), cont, ex
                exit_cond = subst(erase(c, inputs), env)
                exit_val = ex
                run(cont)
    run(loop[3])
    updates = {k: v for k, v in env.items() if k in init}
    # canonical role names for the mutable variables, by order of declaration
    order = sorted(init, key=lambda n: int(n[1:]))
    ren = {n: ("S%d" % i,) for i, n in enumerate(order)}
    return {"range": subst(rng, ren), "init": [subst(init[n], ren) for n in order], "exit": subst(exit_cond, ren) if exit_cond is not None else None,
            "updates": [subst(updates.get(n, ("var", n)), ren) for n in order]}


def compare(named):
    """named: dict label -> loop_step result.  Returns list of disagreement strings."""
    labels = list(named)
    probs = []
    ref = named[labels[0]]
    for lb in labels[1:]:
        cur = named[lb]
        if cur is None or ref is None:
            probs.append("%s: no loop found" % (lb if cur is None else labels[0]))
            continue
        for k in ("range", "init", "exit", "updates"):
            if cur[k] != ref[k]:
                probs.append("%s differs between %s and %s: %s vs %s" % (k, labels[0], lb, T.show(ref[k])[:160], T.show(cur[k])[:160]))
    return probs
