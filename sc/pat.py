"""S-expression patterns over canonical terms: parser + unifier.
  _        wildcard (any subterm)
  ?x       metavariable (binds a subterm; repeated occurrences must be equal)
  (| a b)  alternatives
  ...      (as last element) matches any remaining elements
Atoms in terms are Python str/None; compound terms are tuples."""
import re

_TOK = re.compile(r"\s*(\(|\)|\"(?:[^\"\\]|\\.)*\"|[^\s()]+)")


def parse(src):
    toks = _TOK.findall(src)
    pos = [0]

    def rd():
        t = toks[pos[0]]
        pos[0] += 1
        if t == "(":
            out = []
            while toks[pos[0]] != ")":
                out.append(rd())
            pos[0] += 1
            return tuple(out)
        if t.startswith('"'):
            return t[1:-1]
        if t == "nil":
            return None
        return t
    r = rd()
    if pos[0] != len(toks):
        raise ValueError("trailing tokens in pattern: %s" % src)
    return r


def unify(p, t, env=None):
    """Returns env dict on success, None on failure."""
    if env is None:
        env = {}
    if isinstance(p, str):
        if p == "_":
            return env
        if p.startswith("?"):
            if p in env:
                return env if env[p] == t else None
            e2 = dict(env)
            e2[p] = t
            return e2
        return env if p == t else None
    if p is None:
        return env if t is None else None
    if isinstance(p, tuple):
        if len(p) >= 1 and p[0] == "|":
            for alt in p[1:]:
                r = unify(alt, t, env)
                if r is not None:
                    return r
            return None
        if not isinstance(t, tuple):
            return None
        if len(p) >= 1 and p[-1] == "...":
            if len(t) < len(p) - 1:
                return None
            pp = p[:-1]
            tt = t[:len(pp)]
        else:
            if len(p) != len(t):
                return None
            pp, tt = p, t
        env0 = env
        for a, b in zip(pp, tt):
            env = unify(a, b, env)
            if env is None:
                break
        if env is not None:
            return env
        # if c {A} else {B}  ==  if !c {B} else {A}: a pattern written with one orientation of an integer comparison (or of an
        # equality) also matches the other
        if len(p) == 4 and len(t) == 4 and p[0] == "if" and t[0] == "if" and isinstance(t[1], tuple) and len(t[1]) == 5 and t[1][0] == "op" and t[3] != ("unit",):
            INT = ("i8", "i16", "i32", "i64", "i128", "isize", "u8", "u16", "u32", "u64", "u128", "usize")
            neg = {"eq": "ne", "ne": "eq"}
            if t[1][2] in INT:
                neg.update({"lt": "ge", "ge": "lt", "le": "gt", "gt": "le"})
            if t[1][1] in neg:
                t2 = ("if", ("op", neg[t[1][1]]) + t[1][2:], t[3], t[2])
                env = env0
                for a, b in zip(p, t2):
                    env = unify(a, b, env)
                    if env is None:
                        break
                if env is not None:
                    return env
        # arms of a match on distinct constructors commute: try the other orders of the term's arms
        if len(p) == len(t) and 4 <= len(t) <= 6 and p[0] == "match" and t[0] == "match" and p[-1] != "...":
            import itertools
            arms = t[2:]
            movable = [i for i, a in enumerate(arms) if isinstance(a, tuple) and a and isinstance(a[0], tuple) and a[0] and a[0][0] in ("pvar", "pleaf") and len(a) == 2]
            if len(movable) >= 2:
                for perm in itertools.permutations(movable):
                    if list(perm) == movable:
                        continue
                    new = list(arms)
                    for dst, src in zip(movable, perm):
                        new[dst] = arms[src]
                    env = env0
                    for a, b in zip(p, t[:2] + tuple(new)):
                        env = unify(a, b, env)
                        if env is None:
                            break
                    if env is not None:
                        return env
        return None
    return None


def M(src, t, env=None):
    return unify(parse(src) if isinstance(src, str) else src, t, env)


def subst(p, env):
    if isinstance(p, str) and p.startswith("?"):
        return env.get(p, p)
    if isinstance(p, tuple):
        return tuple(subst(x, env) for x in p)
    return p


def contains(t, pred):
    if pred(t):
        return True
    if isinstance(t, tuple):
        return any(contains(x, pred) for x in t)
    return False


def subterms(t):
    yield t
    if isinstance(t, tuple):
        for x in t:
            for y in subterms(x):
                yield y
