"""S-expression patterns over canonical terms: parser + unifier.
  _        wildcard (any subterm)
  ?x       metavariable (binds a subterm; repeated occurrences must be equal)
  (| a b)  alternatives
  ...      (as last element) matches any remaining elements
Atoms in terms are Python str/None; compound terms are tuples."""
import re

_TOK = re.compile(r"\s*(\(|\)|\"(?:[^\"\\]|\\.)*\"|[^\s()]+)")


def parse(src):
    toks = _TOK.findall(src)
    pos = [0]

    def rd():
        t = toks[pos[0]]
        pos[0] += 1
        if t == "(":
            out = []
            while toks[pos[0]] != ")":
                out.append(rd())
            pos[0] += 1
            return tuple(out)
        if t.startswith('"'):
            return t[1:-1]
        if t == "nil":
            return None
        return t
    r = rd()
    if pos[0] != len(toks):
        raise ValueError("trailing tokens in pattern: %s" % src)
    return r


def unify(p, t, env=None):
    """Returns env dict on success, None on failure."""
    if env is None:
        env = {}
    if isinstance(p, str):
        if p == "_":
            return env
        if p.startswith("?"):
            if p in env:
                return env if env[p] == t else None
            e2 = dict(env)
            e2[p] = t
            return e2
        return env if p == t else None
    if p is None:
        return env if t is None else None
    if isinstance(p, tuple):
        if len(p) >= 1 and p[0] == "|":
            for alt in p[1:]:
                r = unify(alt, t, env)
                if r is not None:
                    return r
            return None
        if not isinstance(t, tuple):
            return None
        if len(p) >= 1 and p[-1] == "...":
            if len(t) < len(p) - 1:
                return None
            pp = p[:-1]
            tt = t[:len(pp)]
        else:
            if len(p) != len(t):
                return None
            pp, tt = p, t
        for a, b in zip(pp, tt):
            env = unify(a, b, env)
            if env is None:
                return None
        return env
    return None


def M(src, t, env=None):
    return unify(parse(src) if isinstance(src, str) else src, t, env)


def subst(p, env):
    if isinstance(p, str) and p.startswith("?"):
        return env.get(p, p)
    if isinstance(p, tuple):
        return tuple(subst(x, env) for x in p)
    return p


def contains(t, pred):
    if pred(t):
        return True
    if isinstance(t, tuple):
        return any(contains(x, pred) for x in t)
    return False


def subterms(t):
    yield t
    if isinstance(t, tuple):
        for x in t:
            for y in subterms(x):
                yield y
