"""Reference *meaning* of every operator / function / constant, per evaluator, as patterns over
chain terms (see sc/chain.py).  Derived from the property statements (C05-C10) and the README,
keyed by surface syntax.  A0, A1 are the operands/arguments in written order."""
from .pat import parse as P
from . import spec

F, I, D, C, N = spec.EVS
A0, A1 = "(ev (A0))", "(ev (A1))"

F64_UNARY = {  # documented name -> std method of that mathematical meaning
    "sin(": "sin", "cos(": "cos", "tan(": "tan", "sinh(": "sinh", "cosh(": "cosh", "tanh(": "tanh",
    "asin(": "asin", "acos(": "acos", "atan(": "atan", "asinh(": "asinh", "arsinh(": "asinh", "acosh(": "acosh", "arcosh(": "acosh",
    "atanh(": "atanh", "artanh(": "atanh", "sqrt(": "sqrt", "ln(": "ln", "exp(": "exp", "exp2(": "exp2", "abs(": "abs",
    "floor(": "floor", "ceil(": "ceil", "round(": "round", "trunc(": "trunc", "truncate(": "trunc",
}
BIN_F64 = {"+": "add", "-": "sub", "*": "mul", "/": "div", "%": "rem"}
DEG = 0.017453292519943295   # pi/180
RAD = 57.29577951308232      # 180/pi


def pats(*srcs):
    return [P(s) for s in srcs]


def f64_table():
    t = {}
    for s, op in BIN_F64.items():
        t[("bin", s)] = pats("(Ok (op %s f64 %s %s))" % (op, A0, A1))
    t[("bin", "^")] = pats("(Ok (call f64::powf %s %s))" % (A0, A1))
    t[("pre", "-")] = pats("(Ok (un neg f64 %s))" % A0)
    for s, mth in F64_UNARY.items():
        t[("fn", s)] = pats("(Ok (call f64::%s %s))" % (mth, A0))
    t[("fn", "lb(")] = pats("(Ok (call f64::log %s (lit 2.0 f64)))" % A0, "(Ok (call f64::log2 %s))" % A0)
    t[("fn", "log(")] = pats("(Ok (call f64::log %s %s))" % (A0, A1), "(Ok (op div f64 (call f64::ln %s) (call f64::ln %s)))" % (A0, A1))
    t[("fn", "pow(")] = t[("bin", "^")]
    t[("fn", "mod(")] = t[("bin", "%")]
    t[("fn", "atan2(")] = pats("(Ok (call f64::atan2 %s %s))" % (A0, A1))
    t[("fn", "root(")] = pats("(Ok (call f64::powf %s (op div f64 (lit 1.0 f64) %s)))" % (A1, A0), "(Ok (call f64::powf %s (call f64::recip %s)))" % (A1, A0))
    sg = ["(if (op eq f64 %s (lit 0.0 f64)) (Ok (| (lit 0.0 f64) %s)) (Ok (call f64::signum %s)))" % (A0, A0, A0),
          "(if (op gt f64 %s (lit 0.0 f64)) (Ok (lit 1.0 f64)) (if (op eq f64 %s (lit 0.0 f64)) (Ok (lit 0.0 f64)) (Ok (lit -1.0 f64))))" % (A0, A0),
          "(if (op ne f64 %s (lit 0.0 f64)) (Ok (call f64::signum %s)) (Ok (| (lit 0.0 f64) %s)))" % (A0, A0, A0)]
    for s in ("sgn(", "sign(", "signum("):
        t[("fn", s)] = pats(*sg)
    return t


def i64_table():
    t = {}
    for s, op in (("+", "add"), ("-", "sub"), ("*", "mul"), ("/", "div")):
        t[("bin", s)] = pats("(lift (call i64::checked_%s %s %s))" % (op, A0, A1))
    # % : exact remainder with the sign of the dividend, Err only for a zero divisor (MIN % -1 = 0 fits)
    t[("bin", "%")] = pats("(if (op eq i64 %s (lit 0 i64)) (Err) (Ok (call i64::wrapping_rem %s %s)))" % (A1, A0, A1),
                           "(if (op ne i64 %s (lit 0 i64)) (Ok (call i64::wrapping_rem %s %s)) (Err))" % (A1, A0, A1),
                           "(if (op eq i64 %s (lit -1 i64)) (Ok (lit 0 i64)) (lift (call i64::checked_rem %s %s)))" % (A1, A0, A1))
    U32 = "(try (call \"<u32 as convert::TryFrom>::try_from\" %s))" % A1
    t[("bin", "^")] = pats("(lift (call i64::checked_pow %s %s))" % (A0, U32))
    t[("bin", "<<")] = pats("(lift (call i64::checked_shl %s %s))" % (A0, U32))
    t[("bin", ">>")] = pats("(lift (call i64::checked_shr %s %s))" % (A0, U32))
    t[("bin", "&")] = pats("(Ok (op bitand i64 %s %s))" % (A0, A1))
    t[("bin", "|")] = pats("(Ok (op bitor i64 %s %s))" % (A0, A1))
    t[("pre", "-")] = pats("(lift (call i64::checked_neg %s))" % A0, "(lift (call i64::checked_sub (lit 0 i64) %s))" % A0)
    t[("fn", "abs(")] = pats("(lift (call i64::checked_abs %s))" % A0)
    for s in ("sgn(", "sign(", "signum("):
        t[("fn", s)] = pats("(Ok (call i64::signum %s))" % A0)
    t[("fn", "pow(")] = t[("bin", "^")]
    t[("fn", "mod(")] = t[("bin", "%")]
    FA0, FA1 = "(cast i64 f64 %s)" % A0, "(cast i64 f64 %s)" % A1
    t[("fn", "sqrt(")] = pats("(Ok (cast f64 i64 (call f64::sqrt %s)))" % FA0)
    t[("fn", "ln(")] = pats("(Ok (cast f64 i64 (call f64::ln %s)))" % FA0)
    t[("fn", "exp(")] = pats("(Ok (cast f64 i64 (call f64::exp %s)))" % FA0)
    t[("fn", "lb(")] = pats("(Ok (cast f64 i64 (call f64::log %s (lit 2.0 f64))))" % FA0, "(Ok (cast f64 i64 (call f64::log2 %s)))" % FA0)
    t[("fn", "log(")] = pats("(Ok (cast f64 i64 (call f64::log %s %s)))" % (FA0, FA1))
    t[("fn", "root(")] = pats("(Ok (cast f64 i64 (call f64::powf %s (op div f64 (lit 1.0 f64) %s))))" % (FA1, FA0))
    t[("fn", "exp2(")] = pats("(if (op lt i64 %s (lit 0 i64)) (Ok (lit 0 i64)) (lift (bindopt (okopt (call \"<u32 as convert::TryFrom>::try_from\" %s)) (bind ?e) (call i64::checked_pow (lit 2 i64) (var ?e)))))" % (A0, A0),
                              "(if (op lt i64 %s (lit 0 i64)) (Ok (lit 0 i64)) (lift (call i64::checked_pow (lit 2 i64) (try (call \"<u32 as convert::TryFrom>::try_from\" %s)))))" % (A0, A0))
    return t


def decimal_table():
    t = {}
    for s, op in (("+", "add"), ("-", "sub"), ("*", "mul"), ("/", "div"), ("%", "rem")):
        t[("bin", s)] = pats("(lift (call Decimal::checked_%s %s %s))" % (op, A0, A1))
    MO = "<Decimal as rust_decimal::MathematicalOps>::"
    t[("bin", "^")] = pats("(lift (call \"%schecked_powd\" %s %s))" % (MO, A0, A1))
    t[("pre", "-")] = pats("(Ok (call \"<Decimal as ops::Neg>::neg\" %s))" % A0)
    for s, mth in (("abs(", "abs"), ("floor(", "floor"), ("ceil(", "ceil"), ("round(", "round"), ("trunc(", "trunc"), ("truncate(", "trunc")):
        t[("fn", s)] = pats("(Ok (call Decimal::%s %s))" % (mth, A0))
    for s in ("sgn(", "sign(", "signum("):
        t[("fn", s)] = pats("(Ok (call \"<Decimal as num_traits::Signed>::signum\" %s))" % A0, "(Ok (call \"<Decimal as rust_decimal::prelude::Signed>::signum\" %s))" % A0)
    t[("fn", "sqrt(")] = pats("(lift (call \"%ssqrt\" %s))" % (MO, A0))
    t[("fn", "ln(")] = pats("(lift (call \"%schecked_ln\" %s))" % (MO, A0))
    t[("fn", "exp(")] = pats("(lift (call \"%schecked_exp\" %s))" % (MO, A0))
    TWO = "(call Decimal::new (lit 2 i64) (lit 0 u32))"
    ONE = "(call Decimal::new (lit 1 i64) (lit 0 u32))"
    t[("fn", "exp2(")] = pats("(lift (call \"%schecked_powd\" %s %s))" % (MO, TWO, A0))
    t[("fn", "pow(")] = t[("bin", "^")]
    t[("fn", "mod(")] = t[("bin", "%")]
    t[("fn", "lb(")] = pats("(lift (bindopt (call \"%schecked_ln\" %s) (bind ?x) (call Decimal::checked_div (var ?x) (try (call \"%schecked_ln\" %s)))))" % (MO, A0, MO, TWO))
    t[("fn", "log(")] = pats("(lift (bindopt (call \"%schecked_ln\" %s) (bind ?x) (call Decimal::checked_div (var ?x) (try (call \"%schecked_ln\" %s)))))" % (MO, A0, MO, A1))
    t[("fn", "root(")] = pats("(lift (bindopt (call Decimal::checked_div %s %s) (bind ?x) (call \"%schecked_powd\" %s (var ?x))))" % (ONE, A0, MO, A1))
    return t


def complex_table():
    t = {}
    for s, op, tr in (("+", "add", "Add"), ("-", "sub", "Sub"), ("*", "mul", "Mul"), ("/", "div", "Div")):
        t[("bin", s)] = pats("(Ok (call \"<Complex as ops::%s>::%s\" %s %s))" % (tr, op, A0, A1))
    t[("bin", "^")] = pats("(Ok (call Complex::powc %s %s))" % (A0, A1))
    t[("fn", "pow(")] = t[("bin", "^")]
    t[("pre", "-")] = pats("(Ok (call \"<Complex as ops::Neg>::neg\" %s))" % A0)
    for s, mth in F64_UNARY.items():
        if s in ("abs(", "floor(", "ceil(", "round(", "trunc(", "truncate("):
            continue
        t[("fn", s)] = pats("(Ok (call Complex::%s %s))" % (mth, A0))
    t[("fn", "abs(")] = pats("(Ok (call Complex::new (call Complex::norm %s) (lit 0.0 f64)))" % A0)
    t[("fn", "lb(")] = pats("(Ok (call Complex::log %s (lit 2.0 f64)))" % A0, "(Ok (call Complex::log2 %s))" % A0)
    t[("fn", "log(")] = pats("(Ok (call \"<Complex as ops::Div>::div\" (call Complex::ln %s) (call Complex::ln %s)))" % (A0, A1))
    t[("fn", "root(")] = pats("(Ok (call Complex::powc %s (call \"<f64 as ops::Div>::div\" (lit 1.0 f64) %s)))" % (A1, A0),
                              "(Ok (call Complex::powc %s (call Complex::inv %s)))" % (A1, A0))
    return t


TABLES = {F: f64_table(), I: i64_table(), D: decimal_table(), C: complex_table()}

# constants: accepted constant paths / bit patterns
import struct, math
PI_BITS = str(struct.unpack("<Q", struct.pack("<d", math.pi))[0])
E_BITS = str(struct.unpack("<Q", struct.pack("<d", math.e))[0])
