"""Model of a tokenizer `next()` extracted from THIR: the first-character dispatch
and, per arm, a decision tree over the look-ahead string.  The model is
*interpreted* on concrete keyword strings (the code itself is never run)."""
from . import thir as T
from .pat import M, parse as P, unify, subterms
from .tables import local_names

EXPR = "(field (param self) expr)"
LOOK = P("(call Iterator::collect::<String> (call Chars.take %s (lit ?n usize)))" % EXPR)
LOOK_STR = P("(call String::as_str (call Iterator::collect::<String> (call Chars.take %s (lit ?n usize))))" % EXPR)
CONSUME = P("(call TakeRef.for_each (call CharsRef.take (call Chars.by_ref %s) (lit ?k usize)) (fnref std::mem::drop))" % EXPR)
PEEK = P("(call Chars.peek %s)" % EXPR)
NEXT = P("(call Chars.next %s)" % EXPR)


class LexModel:
    def __init__(self, tb):
        self.tb = tb
        self.ok = False
        self.arms = []       # (matcher, body)
        self.curvar = None
        f = None
        for k, g in tb.F.by_key.items():
            if g.evaluator == tb.ev and "tokenizer::Tokenizer" in k and k.endswith("::next"):
                f = g
        self.f = f
        if f is None:
            tb.issue("T_lex", tb.ev, "no Tokenizer::next")
            return
        t = tb.lexer_term(f)
        self.term = t
        m = None
        # (seq (let v0 NEXT) (match (var v0) arms...))   or  (match NEXT arms...)
        e = M(("seq", ("let", "?v", NEXT), ("match", ("var", "?v"), "...")), t)
        if e is not None:
            m = t[2]
            self.curvar = ("var", e["?v"])
        elif isinstance(t, tuple) and t[0] == "match" and unify(NEXT, t[1]) is not None:
            m = t
        if m is None:
            tb.issue("T_lex", f.key, "next() is not `let c = self.expr.next(); match c {..}`: %s" % T.show(t)[:300])
            return
        for arm in m[2:]:
            if len(arm) != 2:
                tb.issue("T_lex", f.key, "guarded first-character arm: %s" % T.show(arm[0]))
                continue
            self.arms.append((arm[0], arm[1]))
        self.ok = True

    # first-character dispatch ------------------------------------------------
    @staticmethod
    def _pat_matches(pat, c):
        """c is a 1-char string or None (end of input). Returns True/False/None(unknown)."""
        if pat == "_":
            return True
        if isinstance(pat, tuple):
            if pat[0] == "por":
                rs = [LexModel._pat_matches(p, c) for p in pat[1:]]
                if any(r is True for r in rs):
                    return True
                if any(r is None for r in rs):
                    return None
                return False
            if pat[0] == "bind":
                return True
            if pat[0] == "pvar" and pat[1] == "Option::None":
                return c is None
            if pat[0] == "pvar" and pat[1] == "Option::Some":
                if c is None:
                    return False
                sub = pat[2]
                return LexModel._char_pat(sub, c)
        return None

    @staticmethod
    def _char_pat(sub, c):
        if sub == "_":
            return True
        if isinstance(sub, tuple):
            if sub[0] == "char":
                return sub[1] == c
            if sub[0] == "bind":
                return True
            if sub[0] == "bind@" and len(sub) == 3:        # c @ ('a' | 'b'): matches what the sub-pattern matches
                return LexModel._char_pat(sub[2], c)
            if sub[0] == "prange" and sub[4] == "char":
                lo, hi = int(sub[1]), int(sub[2])
                if sub[3] == "Included":
                    return lo <= ord(c) <= hi
                return lo <= ord(c) < hi
            if sub[0] == "por":
                rs = [LexModel._char_pat(p, c) for p in sub[1:]]
                if any(r is True for r in rs):
                    return True
                if any(r is None for r in rs):
                    return None
                return False
        return None

    def arm_for(self, c):
        for i, (pat, body) in enumerate(self.arms):
            r = self._pat_matches(pat, c)
            if r is None:
                return ("unknown", i)
            if r:
                return ("arm", i)
        return ("nomatch", None)

    def first_chars(self):
        """All literal first characters mentioned by arm patterns."""
        out = []

        def rec(p):
            if isinstance(p, tuple):
                if p[0] == "char":
                    out.append(p[1])
                for x in p:
                    rec(x)
        for pat, _ in self.arms:
            rec(pat)
        return out

    # body interpretation --------------------------------------------------------
    def run(self, text):
        """Interpret the model on `text` (first token only).
        Returns dict: kind in {tok, none, scan, unrecognised, eof}, token term, consumed chars (total)."""
        c = text[0] if text else None
        kind, i = self.arm_for(c)
        if kind != "arm":
            return {"kind": "unrecognised", "why": "first-char dispatch %s" % kind}
        body = self.arms[i][1]
        r = self._run(body, text[1:] if text else "")
        r["arm"] = i
        if r["kind"] == "tok":
            r["consumed"] += 1 if text else 0
        return r

    def _run(self, t, rest):
        if isinstance(t, tuple) and len(t) == 2 and t[0] == "return":
            return self._run(t[1], rest)        # the arm is the tail of next(): `return x` is the value x
        if M("(None)", t) is not None:
            return {"kind": "none"}
        e = M("(Some ?x)", t)
        if e is not None:
            if self._is_scanner_value(e["?x"]):
                return {"kind": "scan", "term": t}
            return {"kind": "tok", "token": e["?x"], "consumed": 0}
        if isinstance(t, tuple) and t[0] == "seq" and len(t) == 3:
            e = M(("let", "?v", ("try", PEEK)), t[1])
            if e is not None and isinstance(t[2], tuple) and t[2][0] == "if" and len(t[2]) == 4 and t[2][1] == ("call", "char::is_ascii_digit", ("var", e["?v"])):
                if not rest:
                    return {"kind": "none"}
                return self._run(t[2][2] if rest[0] in "0123456789" else t[2][3], rest)
            k_alt = self._consume_count(t[1])
            e = unify(CONSUME, t[1])
            if e is None and k_alt is not None:
                e = {"?k": str(k_alt)}
            if e is not None:
                k = int(e["?k"])
                r = self._run(t[2], rest[k:])
                if r["kind"] == "tok":
                    r["consumed"] += min(k, len(rest))
                    r["short"] = r.get("short", False) or k > len(rest)
                return r
            return {"kind": "scan", "term": t}
        if isinstance(t, tuple) and t[0] == "match":
            e = unify(LOOK_STR, t[1])
            if e is None:
                e = unify(LOOK, t[1])
            if e is not None:
                n = int(e["?n"])
                s = rest[:n]
                for arm in t[2:]:
                    if len(arm) != 2:
                        return {"kind": "unrecognised", "why": "guarded look-ahead arm"}
                    p = arm[0]
                    if p == "_" or (isinstance(p, tuple) and p[0] == "bind"):
                        return self._run(arm[1], rest)
                    if isinstance(p, tuple) and p[0] == "str":
                        if p[1] == s:
                            return self._run(arm[1], rest)
                        continue
                    return {"kind": "unrecognised", "why": "look-ahead pattern %s" % T.show(p)}
                return {"kind": "unrecognised", "why": "non-exhaustive look-ahead match"}
            return {"kind": "scan", "term": t}
        if isinstance(t, tuple) and t[0] == "if" and len(t) == 4:
            c = self._cond(t[1], rest)
            if c == "none":
                return {"kind": "none"}
            if c is None:
                return {"kind": "scan", "term": t}
            return self._run(t[2] if c else t[3], rest)
        return {"kind": "scan", "term": t}

    @staticmethod
    def _consume_count(st):
        """other spellings of `consume k characters`: for _ in 0..k { expr.next(); } / expr.nth(k-1)"""
        e = M(("for", "_", ("range", ("lit", "0", "?t"), ("lit", "?k", "?t")), ("call", "Chars.next", ("field", ("param", "self"), "expr"))), st)
        if e is not None:
            return int(e["?k"])
        e = M(("call", "Chars.nth", ("field", ("param", "self"), "expr"), ("lit", "?k", "usize")), st)
        if e is not None:
            return int(e["?k"]) + 1
        if unify(NEXT, st) is not None:
            return 1
        return None

    def _cond(self, c, rest):
        e = M(("call", "<String as cmp::PartialEq>::eq", LOOK, ("str", "?s")), c)
        if e is None:
            e = M(("call", "<str as cmp::PartialEq>::eq", LOOK_STR, ("str", "?s")), c)
        if e is not None:
            return rest[:int(e["?n"])] == e["?s"]
        e = M(("iflet", ("pvar", "Option::Some", ("char", "?c")), PEEK), c)
        if e is not None:
            return rest[:1] == e["?c"]
        e = M(("call", "char::is_ascii_digit", ("try", PEEK)), c)
        if e is not None:
            if not rest:
                return "none"
            return rest[0] in "0123456789"
        if isinstance(c, tuple) and c[0] == "op" and c[1] in ("or", "and"):
            a = self._cond(c[3], rest)
            b = self._cond(c[4], rest)
            if a in (None, "none") or b in (None, "none"):
                return None
            return (a or b) if c[1] == "or" else (a and b)
        return None

    @staticmethod
    def _is_scanner_value(x):
        # token payload computed from scanned text (number / superscript)
        for s in subterms(x):
            if isinstance(s, tuple) and s and s[0] in ("try", "call", "var"):
                return True
        return False

    # keyword discovery ---------------------------------------------------------
    def keyword_candidates(self):
        """first char + every string constant tested in that arm."""
        out = set()
        for pat, body in self.arms:
            firsts = []

            def rec(p):
                if isinstance(p, tuple):
                    if p[0] == "char":
                        firsts.append(p[1])
                    for x in p:
                        rec(x)
            rec(pat)
            strs = [s[1] for s in subterms(body) if isinstance(s, tuple) and len(s) == 2 and s[0] == "str"]
            peeks = []
            for s in subterms(body):
                e = M(("iflet", ("pvar", "Option::Some", ("char", "?c")), PEEK), s)
                if e is not None:
                    peeks.append(e["?c"])
            for c in firsts:
                out.add(c)
                for s in strs:
                    out.add(c + s)
                for s in peeks:
                    out.add(c + s)
        return sorted(out)
