"""THIR helpers: desugar folding (`?`, `for`), a normalising translator from the
typed expression tree to canonical symbolic terms (nested tuples), a printer,
and small tree-walking utilities.  See DESIGN Appendix B."""
import re

# --------------------------------------------------------------------------
# folding of compiler desugarings


def fold(e):
    """Return a simplified copy of a THIR JSON tree: `?` -> try, `for` -> for."""
    if isinstance(e, list):
        return [fold(x) for x in e]
    if not isinstance(e, dict):
        return e
    k = e.get("k")
    if k == "match":
        src = e.get("src", "")
        if src.startswith("TryDesugar"):
            sc = e["scrut"]
            inner = sc["args"][0] if sc.get("k") == "call" and sc.get("args") else sc
            return {"k": "try", "ty": e["ty"], "e": fold(inner), "sp": e["sp"], "inner_ty": inner.get("ty")}
        if src.startswith("ForLoopDesugar"):
            sc = e["scrut"]
            it = sc["args"][0] if sc.get("k") == "call" and sc.get("args") else sc
            try:
                loop = e["arms"][0]["body"]
                body = loop["body"]
                # body is a block whose single stmt is match next(&mut iter) { None => break, Some(pat) => body }
                stmts = body["stmts"] if body["k"] == "block" else []
                m = stmts[0]["e"] if stmts else body.get("tail")
                if m["k"] != "match":
                    m = body["tail"]
                some = [a for a in m["arms"] if a["pat"].get("variant") == "Some"][0]
                pat = some["pat"]["sub"][0]["pat"]
                return {"k": "for", "ty": e["ty"], "iter": fold(it), "pat": fold(pat), "body": fold(some["body"]), "sp": e["sp"]}
            except (KeyError, IndexError, TypeError):
                pass
    return {kk: fold(v) for kk, v in e.items()}


def walk(e, fn):
    """pre-order walk over dict nodes"""
    if isinstance(e, dict):
        if fn(e) is False:
            return
        for v in e.values():
            walk(v, fn)
    elif isinstance(e, list):
        for v in e:
            walk(v, fn)


def find_all(e, pred):
    out = []

    def f(x):
        if pred(x):
            out.append(x)
    walk(e, f)
    return out


# --------------------------------------------------------------------------
# callee naming

_PRIM_IMPL = re.compile(r"^(?:core|std)::(?:f64|f32|num|char|str|slice|bool|i64|u32|usize)(?:::methods)?::<impl ([^>]+)>::(\w+)$")


def fn_name(fnj):
    """Canonical readable name of a resolved callee: `f64::powf`, `i64::checked_add`,
    `Decimal::checked_add`, `<f64 as Add>::add`, `eval_f64::ast::eval`."""
    d = fnj["def"]
    m = _PRIM_IMPL.match(d)
    if m:
        return "%s::%s" % (m.group(1), m.group(2))
    m = re.search(r"<impl ([^<>]+(?:<[^<>]*>)?)>::(\w+)$", d)
    if m and " for " not in m.group(1):
        return "%s::%s" % (short_ty(m.group(1)), m.group(2))
    st = fnj.get("self_ty")
    tr = fnj.get("trait")
    if tr and st:
        return "<%s as %s>::%s" % (short_ty(st), short_path(tr), d.rsplit("::", 1)[1])
    d2 = re.sub(r"::<[^<>]*(?:<[^<>]*>[^<>]*)*>", "", d)
    return short_path(d2)


def short_path(p):
    p = p.replace("std::option::Option", "Option").replace("std::result::Result", "Result")
    p = p.replace("rust_decimal::Decimal", "Decimal").replace("num_complex::Complex", "Complex")
    p = p.replace("std::vec::Vec", "Vec").replace("std::string::String", "String").replace("std::boxed::Box", "Box")
    p = p.replace("std::sync::Arc", "Arc")
    p = re.sub(r"^(?:std|core)::ops::", "ops::", p)
    p = re.sub(r"^(?:std|core)::cmp::", "cmp::", p)
    p = re.sub(r"^(?:std|core)::iter::", "iter::", p)
    p = re.sub(r"^(?:std|core)::convert::", "convert::", p)
    return p


def short_ty(t):
    t = t.replace("rust_decimal::Decimal", "Decimal").replace("num_complex::Complex<f64>", "Complex")
    t = t.replace("std::string::String", "String").replace("std::vec::Vec", "Vec").replace("std::boxed::Box", "Box")
    t = t.replace("std::option::Option", "Option").replace("std::result::Result", "Result").replace("std::sync::Arc", "Arc")
    t = re.sub(r"eval_(f64|i64|decimal|complex|number)::(ast|token|parser|tokenizer|number)::", "", t)
    return t


STRIP_CALLS = {
    "Box::new", "Arc::new",
}
STRIP_TRAIT_METHODS = re.compile(r"^<.* as (?:std::)?(?:clone::Clone|ops::Deref|ops::DerefMut|convert::AsRef|borrow::Borrow)>::(clone|deref|deref_mut|as_ref|borrow)$")


class Ctx:
    """Translation context: variable environment, options."""

    def __init__(self, self_fn=None, inline_pure=True, helpers=None, eval_fn=None):
        self.env = {}          # var id -> term
        self.mut = set()       # ids of mutable vars (not inlined)
        self.names = {}        # var id -> canonical name
        self.counter = 0
        self.inline_pure = inline_pure
        self.eval_fn = eval_fn  # path of the recursive eval fn: eval(x)? becomes (ev x)
        self.helpers = helpers or {}

    def fresh(self, prefix="v"):
        self.counter += 1
        return "%s%d" % (prefix, self.counter)


def lit_term(e):
    lk = e.get("lk")
    v = e.get("v")
    if lk == "int":
        return ("lit", ("-" if e.get("neg") else "") + v, short_ty(e.get("ty", "")))
    if lk == "float":
        txt = v.replace("_", "")
        try:
            val = float(txt)
            txt = repr(-val if e.get("neg") else val)
        except ValueError:
            pass
        return ("lit", txt, short_ty(e.get("ty", "")))
    if lk == "str":
        return ("str", v)
    if lk == "char":
        return ("char", v)
    if lk == "bool":
        return ("lit", v, "bool")
    return ("lit", str(v), lk)


def pat_term(p, ctx, binders=None):
    """Pattern to term; binders get canonical names registered in ctx.env."""
    k = p.get("k")
    if k == "wild":
        return "_"
    if k == "bind":
        name = ctx.fresh("b")
        if binders is not None:
            binders.append((p["id"], name, p["name"]))
        ctx.env[p["id"]] = ("var", name)
        if p.get("sub"):
            return ("bind@", name, pat_term(p["sub"], ctx, binders))
        return ("bind", name)
    if k == "variant":
        subs = [pat_term(s["pat"], ctx, binders) for s in p["sub"]]
        return ("pvar", short_path(re.sub(r"^.*::", "", p["adt"])) + "::" + p["variant"]) + tuple(subs)
    if k == "leaf":
        subs = [pat_term(s["pat"], ctx, binders) for s in p["sub"]]
        return ("pleaf",) + tuple(subs)
    if k in ("deref", "derefpat"):
        return pat_term(p["sub"], ctx, binders)
    if k == "const":
        if "char" in p:
            return ("char", p["char"])
        if "str" in p:
            return ("str", p["str"])
        return ("pconst", p.get("bits"), short_ty(p.get("ty", "")))
    if k == "range":
        return ("prange", p.get("lo"), p.get("hi"), p.get("end"), short_ty(p.get("ty", "")))
    if k == "or":
        return ("por",) + tuple(pat_term(x, ctx, binders) for x in p["pats"])
    return ("pother", k)


def term(e, ctx):
    """Translate a (folded) THIR expression to a canonical term."""
    if e is None:
        return ("unit",)
    k = e["k"]
    if k == "lit":
        return lit_term(e)
    if k in ("var", "upvar"):
        vid = e["id"]
        if vid in ctx.env:
            return ctx.env[vid]
        return ("var", e["name"])
    if k in ("borrow", "deref", "rawborrow", "byuse"):
        return term(e["e"], ctx)
    if k == "coerce":
        return term(e["e"], ctx)
    if k == "try":
        inner = term(e["e"], ctx)
        if ctx.eval_fn and inner[0] == "call" and (inner[1] == ctx.eval_fn or (isinstance(ctx.eval_fn, tuple) and inner[1] in ctx.eval_fn)):
            return ("ev",) + inner[2:]
        return ("try", inner)
    if k == "call":
        fnj = e.get("fn")
        args = [term(a, ctx) for a in e["args"]]
        if fnj is None:
            return ("icall", term(e["callee"], ctx)) + tuple(args)
        name = fn_name(fnj)
        if name == "str::parse" or name.endswith("iter::Iterator>::collect") or name.endswith("iter::Iterator>::sum") or name.endswith("iter::Iterator>::product"):
            rt = e["ty"]
            m = re.match(r"^std::result::Result<(.*), [^,]*>$", rt)
            name = "%s::<%s>" % (name if name == "str::parse" else "Iterator::" + name.rsplit("::", 1)[1], short_ty(m.group(1) if m else rt))
        if name in STRIP_CALLS and len(args) == 1:
            return args[0]
        if STRIP_TRAIT_METHODS.match(name) and len(args) == 1:
            return args[0]
        if name in ("<&str as convert::Into>::into", "<String as convert::Into>::into") or re.match(r"^<.* as convert::(Into|From)>::(into|from)$", name) and e["ty"].startswith("std::boxed::Box<dyn std::error::Error"):
            return ("errmsg",)
        if name in ("ops::Neg::neg",):
            pass
        return ("call", name) + tuple(args)
    if k == "binary":
        lt = short_ty(e["l"]["ty"])
        return ("op", e["op"].lower(), lt, term(e["l"], ctx), term(e["r"], ctx))
    if k == "logical":
        return ("op", e["op"].lower(), "bool", term(e["l"], ctx), term(e["r"], ctx))
    if k == "unary":
        return ("un", e["op"].lower(), short_ty(e["e"]["ty"]), term(e["e"], ctx))
    if k == "cast":
        return ("cast", short_ty(e.get("from", "")), short_ty(e["ty"]), term(e["e"], ctx))
    if k == "field":
        return ("field", term(e["e"], ctx), e["name"])
    if k == "index":
        return ("index", term(e["e"], ctx), term(e["i"], ctx))
    if k == "adt":
        adt = e["adt"]
        nm = re.sub(r"^.*::", "", adt)
        fields = [term(f["e"], ctx) for f in sorted(e["fields"], key=lambda f: f["idx"])]
        named = e["fields"] and not e["fields"][0]["name"].isdigit()
        if named:
            return ("struct", nm + "::" + e["variant"]) + tuple((f["name"], term(f["e"], ctx)) for f in sorted(e["fields"], key=lambda f: f["idx"]))
        if nm == "Result" and e["variant"] == "Err":
            return ("Err",) + tuple(fields)
        if nm == "Result" and e["variant"] == "Ok":
            return ("Ok",) + tuple(fields)
        if nm == "Option" and e["variant"] in ("Some", "None"):
            return (e["variant"],) + tuple(fields)
        return ("ctor", nm + "::" + e["variant"]) + tuple(fields)
    if k == "namedconst":
        d = e.get("def") or ""
        ty = short_ty(e.get("ty", ""))
        bits = e.get("bits")
        if bits is not None and not d.startswith(("core::", "std::", "alloc::", "rust_decimal::", "num_complex::", "num_traits::")):
            # a constant defined in the crate is its value (naming a literal changes nothing)
            try:
                b = int(bits)
                if ty in ("i8", "i16", "i32", "i64", "i128", "isize"):
                    w = {"i8": 8, "i16": 16, "i32": 32, "i64": 64, "i128": 128, "isize": 64}[ty]
                    if b >= 1 << (w - 1):
                        b -= 1 << w
                    return ("lit", str(b), ty)
                if ty in ("u8", "u16", "u32", "u64", "u128", "usize"):
                    return ("lit", str(b), ty)
                if ty == "f64":
                    import struct
                    return ("lit", repr(struct.unpack("<d", struct.pack("<Q", b))[0]), ty)
                if ty == "f32":
                    import struct
                    return ("lit", repr(struct.unpack("<f", struct.pack("<I", b))[0]), ty)
                if ty == "bool":
                    return ("lit", "true" if b else "false", "bool")
            except (ValueError, KeyError, OverflowError):
                pass
        return ("const", short_path(e["def"]), e.get("bits"))
    if k == "fnref":
        return ("fnref", fn_name(e["fn"]))
    if k == "zst":
        return ("zst", short_ty(e["ty"]))
    if k == "closure":
        tr = getattr(ctx, "translator", None)
        if tr is not None:
            return tr.closure_term(e["def"], ctx)       # translated where it occurs: the variables it captures are in scope here
        return ("closure", e["def"])
    if k == "tuple":
        return ("tuple",) + tuple(term(x, ctx) for x in e["es"])
    if k == "array":
        return ("array",) + tuple(term(x, ctx) for x in e["es"])
    if k == "if":
        c = term(e["c"], ctx)
        saved = dict(ctx.env)
        t = term(e["t"], ctx)
        ctx.env = dict(saved)
        el = term(e["e"], ctx) if e.get("e") else ("unit",)
        ctx.env = saved
        return ("if", c, t, el)
    if k == "letx":
        binders = []
        p = pat_term(e["pat"], ctx, binders)
        return ("iflet", p, term(e["e"], ctx))
    if k == "match":
        s = term(e["scrut"], ctx)
        arms = []
        for a in e["arms"]:
            saved = dict(ctx.env)
            p = pat_term(a["pat"], ctx)
            g = term(a["guard"], ctx) if a.get("guard") else None
            b = term(a["body"], ctx)
            ctx.env = saved
            arms.append((p, g, b) if g else (p, b))
        return ("match", s) + tuple(arms)
    if k == "block":
        return block_term(e, ctx)
    if k == "return":
        return ("return", term(e["e"], ctx) if e.get("e") else ("unit",))
    if k == "break":
        return ("break", term(e["e"], ctx)) if e.get("e") else ("break",)
    if k == "continue":
        return ("continue",)
    if k == "assign":
        return ("set", term(e["l"], ctx), term(e["r"], ctx))
    if k == "assignop":
        return ("setop", e["op"].lower().replace("assign", ""), short_ty(e["l"]["ty"]), term(e["l"], ctx), term(e["r"], ctx))
    if k == "loop":
        return ("loop", term(e["body"], ctx))
    if k == "for":
        it = term(e["iter"], ctx)
        ity = (e["iter"] or {}).get("ty") or ""
        if isinstance(ity, str) and re.match(r"^(&(mut )?\[|&(mut )?std::vec::Vec<|std::vec::Vec<|std::slice::Iter<|std::vec::IntoIter<|std::iter::(Cloned|Copied)<std::slice::Iter<)", ity) \
                and not (isinstance(it, tuple) and it and it[0] == "call" and it[1] in ("iter",)) and not (isinstance(it, tuple) and it and it[0] in ("range", "rangei")):
            it = ("call", "iter", it)       # iteration over a collection, however it is spelt (for x in v / in &v / in v.iter())
        saved = dict(ctx.env)
        p = pat_term(e["pat"], ctx)
        b = term(e["body"], ctx)
        ctx.env = saved
        return ("for", p, it, b)
    if k == "scalar":
        return ("lit", e.get("bits"), short_ty(e["ty"]))
    if k in ("staticref", "tlsref"):
        return ("static", e.get("def"))
    return ("opaque", k)


def has_effect_call(t):
    """Does the term contain a call that may have side effects (any call other than pure known ones)?"""
    return False


def _reads_mutable(t):
    """does the term read a `let mut` variable (named m<k> by the translator)? such a value must not be inlined past later assignments"""
    if isinstance(t, tuple):
        if len(t) == 2 and t[0] == "var" and isinstance(t[1], str) and re.match(r"^m\d+$", t[1]):
            return True
        return any(_reads_mutable(x) for x in t)
    return False


def _var_ids(e):
    out = set()

    def f(x):
        if x.get("k") in ("var", "upvar"):
            out.add(x["id"])
    walk(e, f)
    return out


def _root_var(e):
    while isinstance(e, dict) and e.get("k") in ("field", "deref", "index", "borrow"):
        e = e["e"]
    if isinstance(e, dict) and e.get("k") in ("var", "upvar"):
        return e["id"]
    return None


def _mutated_in(nodes, ids):
    hit = []

    def f(x):
        k = x.get("k")
        if k in ("assign", "assignop") and _root_var(x["l"]) in ids:
            hit.append(1)
        if k == "borrow" and "Mut" in x.get("bk", "") and _root_var(x["e"]) in ids:
            hit.append(1)
    walk(nodes, f)
    return bool(hit)


def block_term(b, ctx):
    stmts = []
    for s in b["stmts"]:
        if s["k"] == "let":
            p = s["pat"]
            init = s.get("init")
            if p.get("k") == "bind" and not p.get("sub") and init is not None and s.get("else") in (None,):
                mutable = "Mut" in p.get("mode", "").split(",")[-1] if False else p.get("mode", "").endswith("Mut)")
                t = term(init, ctx)
                reads_mut = False
                if init is not None:
                    # (also state reached through a `&mut` parameter: `let at_i = self.expr.peek() == Some(&'i'); self.expr.next(); .. at_i ..`)
                    ids = _var_ids(init)
                    rest = b["stmts"][b["stmts"].index(s) + 1:] + ([b["tail"]] if b.get("tail") else [])
                    reads_mut = bool(ids) and _mutated_in(rest, ids)
                if mutable or not ctx.inline_pure or reads_mut:
                    name = ctx.fresh("m" if mutable else "v")
                    ctx.env[p["id"]] = ("var", name)
                    stmts.append(("let", name, t))
                else:
                    ctx.env[p["id"]] = t
                continue
            pt = pat_term(p, ctx)
            stmts.append(("letpat", pt, term(init, ctx) if init else ("unit",)) + ((("else", term(s["else"], ctx)),) if s.get("else") else ()))
        else:
            stmts.append(term(s["e"], ctx))
    tail = term(b["tail"], ctx) if b.get("tail") else None
    if not stmts and tail is not None:
        return tail
    if tail is not None:
        stmts.append(tail)
    else:
        stmts.append(("unit",))
    if len(stmts) == 1:
        return stmts[0]
    return ("seq",) + tuple(stmts)


def show(t, indent=None):
    """S-expression printer."""
    if isinstance(t, tuple):
        return "(" + " ".join(show(x) for x in t) + ")"
    if t is None:
        return "nil"
    return str(t)


def pretty(t, width=100, ind=0):
    s = show(t)
    if len(s) + ind <= width or not isinstance(t, tuple):
        return " " * ind + s
    head = t[0] if isinstance(t[0], str) else None
    out = []
    if head is not None:
        out.append(" " * ind + "(" + head)
        rest = t[1:]
    else:
        out.append(" " * ind + "(")
        rest = t
    for x in rest:
        out.append(pretty(x, width, ind + 2))
    out[-1] += ")"
    return "\n".join(out)


# --------------------------------------------------------------------------
# locating the interesting matches

def body_of(fn):
    return fold(fn.thir["body"]) if fn.thir else None


def param_ids(fn):
    out = []
    for p in fn.thir["params"]:
        pat = p.get("pat")
        if pat and pat.get("k") == "bind":
            out.append((pat["id"], pat["name"], p["ty"]))
        else:
            out.append((None, None, p["ty"]))
    return out


def strip_wrappers(e):
    while isinstance(e, dict) and e.get("k") in ("borrow", "deref", "coerce") :
        e = e["e"]
    return e


def find_match_on(body, pred):
    """First `match` (pre-order) whose scrutinee satisfies pred(scrutinee-expr)."""
    found = []

    def f(x):
        if found:
            return False
        if x.get("k") == "match" and pred(x["scrut"]):
            found.append(x)
            return False
    walk(body, f)
    return found[0] if found else None


# --------------------------------------------------------------------------
# closure inlining + normalisation

class Translator:
    """Translates function bodies of one fact base; inlines closures as lambdas."""

    def __init__(self, facts):
        self.F = facts

    def closure_term(self, path, ctx):
        f = self.F.by_path.get(path)
        if f is None or not f.thir:
            return ("closure", path)
        body = fold(f.thir["body"])
        saved = dict(ctx.env)
        params = []
        for p in f.thir["params"][1:]:  # params[0] is the closure environment
            pat = p.get("pat")
            if pat is None:
                continue
            params.append(pat_term(fold(pat), ctx))
        b = self.term(body, ctx)
        ctx.env = saved
        return ("lambda", tuple(params), b)

    def term(self, e, ctx):
        ctx.translator = self
        t = term(e, ctx)
        return self._inline(t, ctx)

    def _inline(self, t, ctx):
        if not isinstance(t, tuple):
            return t
        if len(t) == 2 and t[0] == "closure" and isinstance(t[1], str):
            return self.closure_term(t[1], ctx)
        return tuple(self._inline(x, ctx) for x in t)


def _is(t, head):
    return isinstance(t, tuple) and len(t) > 0 and t[0] == head


def _strip_unit_tail(items):
    items = list(items)
    while len(items) > 1 and items[-1] == ("unit",):
        items.pop()
    return items


def _always_returns(t):
    """every path through t ends in `return`"""
    if _is(t, "return"):
        return True
    if _is(t, "seq") and len(t) > 1:
        return _always_returns(t[-1])
    if _is(t, "if") and len(t) == 4:
        return _always_returns(t[2]) and _always_returns(t[3])
    if _is(t, "match") and len(t) > 2:
        return all(_always_returns(a[-1]) for a in t[2:])
    return False


_FOLD_CTR = [5000]


def _fold_loop(t, ctx):
    """iter.fold(init, |acc, x| body) / iter.try_fold(init, |acc, x| body) as the loop they abbreviate:
         let mut m = init; for x in iter { m = body[acc := m] }; m
       ctx: "plain" (fold; value m), "option" (try_fold over Option under ok_or: value Ok(m), step m = body.ok_or(..)?),
            "result-value" (try_fold over Result under `?`: value m, step m = body?)"""
    if not (_is(t, "call") and len(t) == 5 and isinstance(t[1], str) and _is(t[4], "lambda") and len(t[4]) == 3 and len(t[4][1]) == 2 and all(_is(b_, "bind") for b_ in t[4][1])):
        return None
    is_try = t[1].endswith("iter::Iterator>::try_fold") or t[1] in ("Iterator::try_fold",)
    is_fold = t[1].endswith("iter::Iterator>::fold") or t[1] in ("Iterator::fold",)
    if (ctx == "plain") != is_fold or not (is_try or is_fold):
        return None
    it, init, lam = t[2], t[3], t[4]
    acc, x = lam[1][0][1], lam[1][1][1]
    _FOLD_CTR[0] += 1
    m = "m%d" % _FOLD_CTR[0]

    def sv(z):
        if isinstance(z, tuple):
            if z == ("var", acc):
                return ("var", m)
            return tuple(sv(w) for w in z)
        return z
    body = sv(lam[2])
    if not (_is(it, "call") and it[1] == "iter") and not (_is(it, "range") or _is(it, "rangei")):
        it = ("call", "iter", it)
    if ctx == "plain":
        step, val = body, ("var", m)
    elif ctx == "option":
        step, val = ("try", ("lift", body)), ("Ok", ("var", m))
    else:
        step, val = ("try", body), ("var", m)
    return ("seq", ("let", m, init), ("for", ("bind", x), it, ("set", ("var", m), step)), val)


def _neg(c):
    """exact negation of a boolean term in positive form, or None"""
    if _is(c, "un") and c[1] == "not" and len(c) == 4:
        return c[3]
    if _is(c, "call") and isinstance(c[1], str) and c[1].endswith("cmp::PartialEq>::eq"):
        return ("call", c[1][:-2] + "ne") + c[2:]
    if _is(c, "call") and isinstance(c[1], str) and c[1].endswith("cmp::PartialEq>::ne"):
        return ("call", c[1][:-2] + "eq") + c[2:]
    if _is(c, "op") and len(c) == 5 and c[1] in ("eq", "ne"):
        return ("op", "ne" if c[1] == "eq" else "eq") + c[2:]
    return None


def _flip_not(t):
    """(if (not c) A B) ==> (if c B A)   (two-armed conditionals only)"""
    while _is(t, "if") and len(t) == 4 and t[3] != ("unit",) and _is(t[1], "un") and t[1][1] == "not" and len(t[1]) == 4:
        t = ("if", t[1][3], t[3], t[2])
    if _is(t, "if") and len(t) == 4 and t[3] != ("unit",) and _is(t[1], "call") and isinstance(t[1][1], str) and t[1][1].endswith("cmp::PartialEq>::ne") and len(t[1]) == 4:
        # derived / std PartialEq: ne is the negation of eq
        t = ("if", ("call", t[1][1][:-2] + "eq") + t[1][2:], t[3], t[2])
    # if !x || y {A} else {B}  ==  if x && !y {B} else {A}     (De Morgan, when a disjunct is a negation)
    if _is(t, "if") and len(t) == 4 and t[3] != ("unit",) and _is(t[1], "op") and len(t[1]) == 5 and t[1][1] == "or":
        dis = []

        def flat(c):
            if _is(c, "op") and len(c) == 5 and c[1] == "or":
                flat(c[3]); flat(c[4])
            else:
                dis.append(c)
        flat(t[1])
        if any(_is(d, "un") and d[1] == "not" for d in dis) and all(_neg(d) is not None for d in dis):
            conj = _neg(dis[0])
            for d in dis[1:]:
                conj = ("op", "and", "bool", conj, _neg(d))
            t = ("if", conj, t[3], t[2])
    # n <= k  ==  !(n > k)  on lengths (total order)
    if _is(t, "if") and len(t) == 4 and t[3] != ("unit",) and _is(t[1], "op") and len(t[1]) == 5 and t[1][2] == "usize" and _is(t[1][3], "call") and t[1][3][1] == "Vec::len":
        if t[1][1] == "le":
            t = ("if", ("op", "gt") + t[1][2:], t[3], t[2])
        elif t[1][1] == "ge":
            t = ("if", ("op", "lt") + t[1][2:], t[3], t[2])
    # if !x && !y {A} else {B}  ==  if x || y {B} else {A}
    if _is(t, "if") and len(t) == 4 and t[3] != ("unit",) and _is(t[1], "op") and len(t[1]) == 5 and t[1][1] == "and":
        con = []

        def flatc(c):
            if _is(c, "op") and len(c) == 5 and c[1] == "and":
                flatc(c[3]); flatc(c[4])
            else:
                con.append(c)
        flatc(t[1])
        def negative(d):
            return (_is(d, "un") and d[1] == "not") or (_is(d, "call") and isinstance(d[1], str) and d[1].endswith("cmp::PartialEq>::ne")) or (_is(d, "op") and len(d) == 5 and d[1] == "ne")
        if len(con) > 1 and all(negative(d) for d in con):
            dis = _neg(con[0])
            for d in con[1:]:
                dis = ("op", "or", "bool", dis, _neg(d))
            t = ("if", dis, t[3], t[2])
    # a != b is exactly !(a == b) (also for NaN)
    if _is(t, "if") and len(t) == 4 and t[3] != ("unit",) and _is(t[1], "op") and len(t[1]) == 5 and t[1][1] == "ne":
        t = ("if", ("op", "eq") + t[1][2:], t[3], t[2])
    # if c1 {A} else if c2 {B} else {C}  ==  if c2 {B} else if c1 {A} else {C}   when c1 and c2 compare the same two plain operands
    # and cannot both hold (== with > or <, > with <; true for NaN as well: then neither holds): canonical order > , < , ==
    if _is(t, "if") and len(t) == 4 and _is(t[3], "if") and len(t[3]) == 4 and _is(t[1], "op") and _is(t[3][1], "op") and len(t[1]) == 5 and len(t[3][1]) == 5 \
            and t[1][2:] == t[3][1][2:] and t[1][1] in _EXCL_RANK and t[3][1][1] in _EXCL_RANK and t[1][1] != t[3][1][1] \
            and _EXCL_RANK[t[1][1]] > _EXCL_RANK[t[3][1][1]] and all(_plain_operand(o) for o in t[1][3:]):
        t = ("if", t[3][1], t[3][2], ("if", t[1], t[2], t[3][3]))
    return t


def iflet_some_match(t):
    """if let Some(p) = x {A} else {B}  ==  match x {Some(p) => A, None => B}   (value position, both branches present)"""
    if not isinstance(t, tuple):
        return t
    t = tuple(iflet_some_match(x) for x in t)
    if _is(t, "if") and len(t) == 4 and t[3] != ("unit",) and _is(t[1], "iflet") and len(t[1]) == 3 and _is(t[1][1], "pvar") and t[1][1][1] == "Option::Some":
        return ("match", t[1][2], (t[1][1], t[2]), (("pvar", "Option::None"), t[3]))
    return t


_INT_TYS = ("i8", "i16", "i32", "i64", "i128", "isize", "u8", "u16", "u32", "u64", "u128", "usize")
_EXCL_RANK = {"gt": 0, "lt": 1, "eq": 2}


def _plain_operand(o):
    return isinstance(o, tuple) and (o[0] in ("var", "param", "lit", "ev") or (o[0] == "field" and _plain_operand(o[1])) or (o[0] == "un" and o[1] == "neg" and _plain_operand(o[-1])))


def normalise(t):
    """Bottom-up rewriting to a canonical form in which error *content* is erased
    (only Err-ness matters to every property) and the usual spellings coincide."""
    if not isinstance(t, tuple):
        return t
    t = tuple(normalise(x) for x in t)
    h = t[0] if t else None
    if h == "Err":
        return ("Err",)
    if h == "if" and len(t) == 4 and t[1] in (("lit", "true", "bool"), ("lit", "false", "bool")):
        # a literal condition (this is what `cfg!(..)` / `debug_assert!` leave behind in the analysed configuration):
        # only the live branch is behaviour.  The dead branch is the business of premises.profile_const.
        return t[2] if t[1][1] == "true" else t[3]
    if h == "errmsg":
        return ("errmsg",)
    if h == "op" and len(t) == 5 and _is(t[3], "seq") and len(t[3]) > 2 and t[1] not in ("and", "or"):
        # { a; b; v } op y  ==  a; b; (v op y)       (the left operand is evaluated first in any case)
        return normalise(t[3][:-1] + (("op", t[1], t[2], t[3][-1], t[4]),))
    if h == "call" and len(t) == 3 and t[1] == "Iterator::collect::<String>" and _is(t[2], "call") and len(t[2]) == 3 and t[2][1] == "<Option<char> as iter::IntoIterator>::into_iter":
        # opt.into_iter().collect::<String>()  ==  opt.map(|c| c.to_string()).unwrap_or_default()     (one character or the empty string)
        _FOLD_CTR[0] += 1
        c = "b%d" % _FOLD_CTR[0]
        return ("call", "Option::unwrap_or_default", ("mapopt", t[2][2], ("bind", c), ("call", "<char as std::string::ToString>::to_string", ("var", c))))
    if h == "call" and isinstance(t[1], str) and t[1].endswith("iter::Extend>::extend") and len(t) == 4 and _is(t[3], "call") and t[3][1] == "iter::from_fn" and len(t[3]) == 3 \
            and _is(t[3][2], "lambda") and not t[3][2][1] and t[1].startswith("<String"):
        # buf.extend(from_fn(|| next()))   ==   loop { if let Some(c) = next() { buf.push(c) } else { break } }
        _FOLD_CTR[0] += 1
        c = "b%d" % _FOLD_CTR[0]
        return normalise(("loop", ("if", ("iflet", ("pvar", "Option::Some", ("bind", c)), t[3][2][2]), ("call", "String::push", t[2], ("var", c)), ("break",))))
    if h == "call" and t[1] in ("Option::unwrap_or_else", "Option::unwrap_or") and len(t) == 4 and _is(t[2], "mapopt") and len(t[2]) == 4 and _is(t[2][2], "bind"):
        # x.map(f).unwrap_or_else(d) == match x { Some(v) => f(v), None => d() }
        d = t[3]
        if t[1] == "Option::unwrap_or_else":
            d = t[3][2] if (_is(t[3], "lambda") and not t[3][1]) else ("icall", t[3])
        return normalise(("match", t[2][1], (("pvar", "Option::Some", t[2][2]), t[2][3]), (("pvar", "Option::None"), d)))
    if h == "mapopt" and len(t) == 4 and _is(t[1], "call") and t[1][1] == "Option::filter" and len(t[1]) == 4 and _is(t[1][3], "lambda") and len(t[1][3][1]) == 1 and _is(t[1][3][1][0], "bind"):
        # x.filter(|c| *c == K).map(|_| v)   ==   if let Some(K) = x { Some(v) } else { None }        (K a char literal, v does not use the element)
        x, c, pred = t[1][2], t[1][3][1][0][1], t[1][3][2]
        uses_elem = (t[2] != "_") and any(y == ("var", t[2][1]) for y in _subterms(t[3])) if _is(t[2], "bind") else False
        k = None
        if _is(pred, "op") and len(pred) == 5 and pred[1] == "eq" and pred[2] == "char":
            if pred[3] == ("var", c) and _is(pred[4], "char"):
                k = pred[4]
            elif pred[4] == ("var", c) and _is(pred[3], "char"):
                k = pred[3]
        if k is not None and not uses_elem:
            return normalise(("if", ("iflet", ("pvar", "Option::Some", k), x), ("Some", t[3]), ("None",)))
    if h == "call" and t[1] == "Option::filter" and len(t) == 4 and _is(t[3], "lambda") and len(t[3][1]) == 1 and _is(t[3][1][0], "bind") \
            and not (_is(t[3][2], "op") and len(t[3][2]) == 5 and t[3][2][1] == "eq" and t[3][2][2] == "char"):     # (a char test under .map: see mapopt below)
        # x.filter(|v| p(v))  ==  match x { Some(v) => if p(v) { Some(v) } else { None }, None => None }
        v = t[3][1][0][1]
        return normalise(("match", t[2], (("pvar", "Option::Some", ("bind", v)), ("if", t[3][2], ("Some", ("var", v)), ("None",))), (("pvar", "Option::None"), ("None",))))
    if h == "for" and len(t) == 4 and _is(t[2], "call") and len(t[2]) == 3 and t[2][1] == "iter" and _is(t[2][2], "seq") and len(t[2][2]) > 2:
        # for x in { a; b; v } { .. }  ==  a; b; for x in v { .. }
        return normalise(t[2][2][:-1] + (("for", t[1], ("call", "iter", t[2][2][-1]), t[3]),))
    if h == "call" and isinstance(t[1], str) and len(t) >= 3 and _is(t[2], "seq") and len(t[2]) > 2 and t[1] != "iter" \
            and not any(_is(y, "ev") or _is(y, "try") or is_effect_call(y) for a_ in t[3:] for y in _subterms(a_)):
        # f({ a; b; v }, pure..)  ==  a; b; f(v, pure..)        (the first argument is evaluated first)
        return normalise(t[2][:-1] + ((t[0], t[1], t[2][-1]) + t[3:],))
    if h == "call" and t[1] == "Vec::push" and len(t) == 4 and _is(t[3], "seq") and len(t[3]) > 2:
        # v.push({ a; b; x })  ==  a; b; v.push(x)
        return normalise(t[3][:-1] + (("call", "Vec::push", t[2], t[3][-1]),))
    if h == "mapopt" and len(t) == 4 and _is(t[1], "okopt") and len(t[1]) == 2 and _is(t[2], "bind"):
        # r.ok().map(f) == match r { Ok(v) => Some(f(v)), Err(_) => None }
        return normalise(("match", t[1][1], (("pvar", "Result::Ok", t[2]), ("Some", t[3])), (("pvar", "Result::Err", "_"), ("None",))))
    if h == "call" and t[1] == "Option::or_else" and len(t) == 4 and _is(t[3], "lambda") and not t[3][1] and _is(t[2], "match") and all(len(a) == 2 for a in t[2][2:]) \
            and all(_is(a[1], "Some") or a[1] == ("None",) for a in t[2][2:]):
        # m.or_else(|| d): the None outcomes of m become d
        return normalise(("match", t[2][1]) + tuple((a[0], t[3][2] if a[1] == ("None",) else a[1]) for a in t[2][2:]))
    if h == "call" and t[1] in ("Option::map_or", "Option::map_or_else") and len(t) == 5 and (_is(t[4], "lambda") or _is(t[4], "fnref")):
        # x.map_or(d, f) == match x { Some(v) => f(v), None => d }      (map_or_else: d is a thunk)
        _FOLD_CTR[0] += 1
        v = "b%d" % _FOLD_CTR[0]
        d = t[3]
        if t[1] == "Option::map_or_else":
            d = ("icall", t[3]) if not (_is(t[3], "lambda") and not t[3][1]) else t[3][2]
        return normalise(("match", t[2], (("pvar", "Option::Some", ("bind", v)), ("icall", t[4], ("var", v))), (("pvar", "Option::None"), d)))
    if h == "call" and isinstance(t[1], str) and re.match(r"^Iterator::product::<(i8|i16|i32|i64|u8|u16|u32|u64|usize|isize)>$", t[1]) and len(t) == 3 and (_is(t[2], "range") or _is(t[2], "rangei")):
        # (a..=b).product::<int>()  ==  let mut m = 1; for i in a..=b { m *= i }; m        (std panics on overflow exactly where `*=` does)
        ty = t[1][len("Iterator::product::<"):-1]
        _FOLD_CTR[0] += 1
        m, i_ = "m%d" % _FOLD_CTR[0], "b%d" % _FOLD_CTR[0]
        return normalise(("seq", ("let", m, ("lit", "1", ty)), ("for", ("bind", i_), t[2], ("setop", "mul", ty, ("var", m), ("var", i_))), ("var", m)))
    if h == "call" and t[1] == "Iterator::product::<f64>" and len(t) == 3 and _is(t[2], "call") and len(t[2]) == 4 and isinstance(t[2][1], str) and t[2][1].endswith("as iter::Iterator>::map") \
            and (_is(t[2][2], "range") or _is(t[2][2], "rangei")) and _is(t[2][3], "lambda") and len(t[2][3][1]) == 1 and _is(t[2][3][1][0], "bind"):
        # (a..=b).map(|i| f(i)).product::<f64>()  ==  let mut m = 1.0; for i in a..=b { m *= f(i) }; m      (std: fold(1.0, |acc, x| acc * x))
        _FOLD_CTR[0] += 1
        m = "m%d" % _FOLD_CTR[0]
        return normalise(("seq", ("let", m, ("lit", "1.0", "f64")), ("for", t[2][3][1][0], t[2][2], ("setop", "mul", "f64", ("var", m), t[2][3][2])), ("var", m)))
    if h == "call" and isinstance(t[1], str) and len(t) == 4 and re.match(r"^<Option<&?char> as cmp::PartialEq>::eq$", t[1]):
        # opt == Some('c')  ==  matches!(opt, Some('c'))      (either side)
        for a, b in ((t[2], t[3]), (t[3], t[2])):
            if _is(b, "Some") and len(b) == 2 and _is(b[1], "char"):
                return ("iflet", ("pvar", "Option::Some", b[1]), a)
            if b == ("None",):
                return ("iflet", ("pvar", "Option::None"), a)
    if h == "call" and isinstance(t[1], str) and len(t) == 4 and re.search(r"(^|[.:])eq$", t[1]) and _is(t[2], "call") and t[2][1] == "Chars.take" \
            and _is(t[3], "call") and len(t[3]) == 3 and t[3][1] == "str::chars" and _is(t[3][2], "str"):
        # it.take(n).eq("lit".chars())  ==  it.take(n).collect::<String>() == "lit"
        return normalise(("call", "<String as cmp::PartialEq>::eq", ("call", "Iterator::collect::<String>", t[2]), t[3][2]))
    # ---- a literal table searched with `position`, and the std functions folded on literals
    if h == "call" and isinstance(t[1], str) and len(t) == 4 and re.search(r"Iterator(>)?::position$", t[1]) and _is(t[2], "call") and len(t[2]) == 3 and t[2][1] == "iter" \
            and _is(t[2][2], "array") and len(t[2][2]) > 1 and all(_is(a, "char") for a in t[2][2][1:]) and len(set(t[2][2][1:])) == len(t[2][2]) - 1 \
            and _is(t[3], "lambda") and len(t[3]) == 3 and len(t[3][1]) == 1 and _is(t[3][1][0], "bind"):
        # [c0, c1, ..].iter().position(|x| x == p)   ==   match p { c0 => Some(0), c1 => Some(1), .., _ => None }     (distinct literals)
        b, body, p_ = ("var", t[3][1][0][1]), t[3][2], None
        if _is(body, "call") and len(body) == 4 and isinstance(body[1], str) and re.match(r"^<&*char as cmp::PartialEq(<&*char>)?>::eq$", body[1]):
            p_ = body[3] if body[2] == b else (body[2] if body[3] == b else None)
        elif _is(body, "op") and len(body) == 5 and body[1] == "eq" and body[2] == "char":
            p_ = body[4] if body[3] == b else (body[3] if body[4] == b else None)
        if p_ is not None and not any(y == b for y in _subterms(p_)):
            return normalise(("match", p_) + tuple((a, ("Some", ("lit", str(i), "usize"))) for i, a in enumerate(t[2][2][1:])) + (("_", ("None",)),))
    if h == "cast" and len(t) == 4 and _is(t[3], "lit") and len(t[3]) == 3 and t[1] in _INT_TYS and t[2] in _INT_TYS and str(t[3][1]).isdigit() and int(t[3][1]) < 128:
        return ("lit", t[3][1], t[2])          # a small non-negative literal is the same number in every integer type
    if h == "call" and t[1] == "char::from_digit" and len(t) == 4 and _is(t[2], "lit") and t[3] == ("lit", "10", "u32") and str(t[2][1]).isdigit():
        return ("Some", ("char", t[2][1])) if int(t[2][1]) < 10 else ("None",)
    if (h == "cast" and len(t) == 4 and _is(t[3], "match")) or (h == "call" and isinstance(t[1], str) and len(t) >= 3 and _is(t[2], "match") and all(_is(a, "lit") for a in t[3:]) and re.match(r"^(char|u32|u8|usize|i64|f64)::\w+$", t[1])):
        # f(match s {p => lit, .., q => return e})  ==  match s {p => f(lit), .., q => return e}     (table look-ups)
        mt = t[3] if h == "cast" else t[2]
        if len(mt) > 2 and all(len(a) == 2 and (_is(a[1], "lit") or _is(a[1], "return")) for a in mt[2:]) and any(_is(a[1], "lit") for a in mt[2:]):
            wrap = (lambda v: ("cast", t[1], t[2], v)) if h == "cast" else (lambda v: ("call", t[1], v) + t[3:])
            return normalise(("match", mt[1]) + tuple((a[0], a[1] if _is(a[1], "return") else wrap(a[1])) for a in mt[2:]))
    if h == "call" and t[1] == "bool::then" and len(t) == 4 and _is(t[3], "lambda") and len(t[3]) == 3 and not t[3][1]:
        # c.then(|| x)  ==  if c { Some(x) } else { None }
        return normalise(("if", t[2], ("Some", t[3][2]), ("None",)))
    if h == "call" and t[1] == "bool::then_some" and len(t) == 4:
        return normalise(("if", t[2], ("Some", t[3]), ("None",)))
    if h == "call" and t[1] in ("ops::Range::contains", "ops::Range::<Idx>::contains") and len(t) == 4 and _is(t[2], "range") and len(t[2]) == 3:
        lo, hi = t[2][1], t[2][2]
        ty = lo[2] if _is(lo, "lit") and len(lo) == 3 else (hi[2] if _is(hi, "lit") and len(hi) == 3 else None)
        if ty in ("f64", "f32", "i64", "i32", "u32", "usize", "u64"):
            # (a..b).contains(&x)  ==  a <= x && x < b
            return ("op", "and", "bool", ("op", "ge", ty, t[3], lo), ("op", "lt", ty, t[3], hi))
    if h == "call":
        name = t[1]
        if isinstance(name, str) and len(t) == 3:
            # iteration over a collection, however spelt:  v.into_iter() / v.iter() / (&v).into_iter() / v.iter().cloned()
            if name in ("[T]::iter", "Vec::iter") or re.match(r"^<&?(mut )?(Vec<.*>|\[.*\]) as iter::IntoIterator>::into_iter$", name):
                if _is(t[2], "call") and len(t[2]) == 3 and t[2][1] == "iter":
                    return t[2]
                return ("call", "iter", t[2])
            if name == "iter" and _is(t[2], "call") and len(t[2]) == 3 and t[2][1] == "iter":
                return t[2]
            if name == "iter" and _is(t[2], "call") and len(t[2]) == 3 and isinstance(t[2][1], str) and re.search(r"(^|::)(to_vec|to_owned)$", t[2][1]):
                return normalise(("call", "iter", t[2][2]))      # iterating over a copy of the collection (like .clone(), which the translator drops)
            if re.search(r"iter::Iterator>::(cloned|copied)$", name) or name in ("Iterator::cloned", "Iterator::copied", "iter::Iterator::cloned", "iter::Iterator::copied"):
                return t[2]
            if name in ("Vec::with_capacity",):
                return ("call", "Vec::new")        # a capacity hint is not observable
            if name in ("[T]::len",):
                return ("call", "Vec::len", t[2])
            if name in ("[T]::is_empty",):
                return ("call", "Vec::is_empty", t[2])
        if name in ("Option::ok_or_else", "Option::ok_or") and len(t) >= 3:
            return ("lift", t[2])
        if name in ("Result::map_err",) and len(t) >= 3:
            return t[2]
        if name == "Result::ok" and len(t) == 3:
            return ("okopt", t[2])
        if name.endswith("ops::RangeInclusive::<Idx>>::new") or name == "ops::RangeInclusive::new":
            return ("rangei", t[2], t[3])
        if name == "Option::and_then" and len(t) == 4 and _is(t[3], "lambda") and len(t[3][1]) == 1:
            # x.and_then(|v| body)  ==>  (bindopt x v body)
            return ("bindopt", t[2], t[3][1][0], t[3][2])
        if name == "Option::and_then" and len(t) == 4 and _is(t[3], "fnref"):
            return ("bindopt", t[2], ("bind", "_f"), ("call", t[3][1], ("var", "_f")))
        if name == "Option::map" and len(t) == 4 and _is(t[3], "lambda") and len(t[3][1]) == 1:
            return ("mapopt", t[2], t[3][1][0], t[3][2])
        if name == "Option::map" and len(t) == 4 and _is(t[3], "fnref"):
            return ("mapopt", t[2], ("bind", "_f"), ("icall", t[3], ("var", "_f")))
    if h == "struct" and t[1] == "Range::Range":
        d = dict((x[0], x[1]) for x in t[2:])
        return ("range", d.get("start"), d.get("end"))
    if h == "struct" and t[1] == "RangeInclusive::RangeInclusive":
        d = dict((x[0], x[1]) for x in t[2:])
        return ("rangei", d.get("start"), d.get("end"))
    if h == "seq":
        items = _strip_unit_tail(t[1:])
        # flatten nested seq
        flat = []
        for x in items:
            if _is(x, "seq"):
                flat.extend(x[1:])
            else:
                flat.append(x)
        items = _strip_unit_tail(flat)
        # a `()` statement (what a compiled-out `debug_assert!` leaves behind) does nothing
        items = [x for x in items[:-1] if x != ("unit",)] + list(items[-1:])
        # let v = C; ..if v {a}..; ..if v {b} else {c}..   ==   if C { ..a..b.. } else { ....c.. }      (v immutable, used only as a condition, twice or more:
        # a boolean decided once and branched on later -- the case split is exact because C is evaluated once, first, either way)
        for i, x in enumerate(items):
            if _is(x, "let") and len(x) == 3 and isinstance(x[1], str) and re.match(r"^v\d+$", x[1]) and i + 1 < len(items):
                vv = ("var", x[1])
                rest = ("seq",) + tuple(items[i + 1:])
                n_all = sum(1 for y in _subterms(rest) if y == vv)
                n_cond = sum(1 for y in _subterms(rest) if _is(y, "if") and len(y) == 4 and (y[1] == vv or y[1] == ("un", "not", "bool", vv)))
                if n_all >= 2 and n_all == n_cond and term_size(rest) <= 400:
                    def sb(z, val):
                        if isinstance(z, tuple):
                            if z == vv:
                                return ("lit", val, "bool")
                            return tuple(sb(w, val) for w in z)
                        return z
                    split = ("if", x[2], sb(rest, "true"), sb(rest, "false"))
                    return normalise(("seq",) + tuple(items[:i]) + (split,)) if i else normalise(split)
        # let (a, b) = (x, y)   ==  let a = x; let b = y
        flat1 = []
        for x in items:
            if _is(x, "letpat") and len(x) == 3 and _is(x[1], "pleaf") and _is(x[2], "tuple") and len(x[1]) == len(x[2]) and all(_is(b_, "bind") for b_ in x[1][1:]):
                for b_, v_ in zip(x[1][1:], x[2][1:]):
                    flat1.append(("let", b_[1], v_))
                # (the bindings are immutable: they are substituted below like every other immutable binding whose
                #  value does not read a mutable local)
            else:
                flat1.append(x)
        if flat1 != list(items):
            return normalise(("seq",) + tuple(flat1))
        # immutable bindings introduced by the rewriting above (b<k>): substituted into their uses, as the translator
        # does for `let x = e;` (same convention: only if e reads no mutable local and calls no parser method)
        for i, x in enumerate(items):
            if _is(x, "let") and len(x) == 3 and isinstance(x[1], str) and re.match(r"^b\d+$", x[1]) and not _reads_mutable(x[2]) and not any(is_effect_call(y) for y in _subterms(x[2])):
                def sb(z, a=x[1], val=x[2]):
                    if isinstance(z, tuple):
                        if z == ("var", a):
                            return val
                        return tuple(sb(w) for w in z)
                    return z
                return normalise(("seq",) + tuple(items[:i]) + tuple(sb(r_) for r_ in items[i + 1:]))
        # let x = { a; b; v }   ==  a; b; let x = v
        flat2 = []
        for x in items:
            if (_is(x, "let") or _is(x, "letpat")) and len(x) == 3 and _is(x[2], "seq") and len(x[2]) > 2:
                flat2.extend(x[2][1:-1])
                flat2.append((x[0], x[1], x[2][-1]))
            else:
                flat2.append(x)
        if flat2 != items:
            return normalise(("seq",) + tuple(flat2))
        # let v = matches!(s, P); if <cond over v> ..   ==   if <cond over matches!(s, P)> ..   (v used once, in the condition of the
        # very next statement, which calls nothing before reading it)
        for i, x in enumerate(items[:-1]):
            if _is(x, "let") and len(x) == 3 and isinstance(x[1], str) and _is(x[2], "match") and len(x[2]) > 2 \
                    and all(len(a) == 2 and _is(a[1], "lit") and len(a[1]) == 3 and a[1][2] == "bool" for a in x[2][2:]):
                nx = items[i + 1]
                uses = sum(1 for r_ in items[i + 1:] for y in _subterms(r_) if y == ("var", x[1]))
                if _is(nx, "if") and len(nx) == 4 and uses == 1 and any(y == ("var", x[1]) for y in _subterms(nx[1])) and not any(is_effect_call(y) for y in _subterms(nx[1])):
                    def sbm(z, a=x[1], val=x[2]):
                        if isinstance(z, tuple):
                            if z == ("var", a):
                                return val
                            return tuple(sbm(w) for w in z)
                        return z
                    new_items = list(items[:i]) + [("if", sbm(nx[1]), nx[2], nx[3])] + list(items[i + 2:])
                    return normalise(("seq",) + tuple(new_items)) if len(new_items) > 1 else normalise(new_items[0])
        # let v = match self.current_token {p => a, ..}; rest   ==   match self.current_token {p => {let v = a; rest}, ..}
        # (commuting conversion, for a short continuation after the token dispatch; arms that return keep their body)
        for i, x in enumerate(items):
            if _is(x, "let") and len(x) == 3 and _is(x[2], "match") and x[2][1] == ("field", ("param", "self"), "current_token") and all(len(a) == 2 for a in x[2][2:]):
                rest = tuple(items[i + 1:])
                if rest and sum(term_size(r_) for r_ in rest) <= 40:
                    arms = tuple((a[0], a[1] if _always_returns(a[1]) else normalise(("seq", ("let", x[1], a[1])) + rest)) for a in x[2][2:])
                    new_items = list(items[:i]) + [("match", x[2][1]) + arms]
                    return normalise(("seq",) + tuple(new_items)) if len(new_items) > 1 else new_items[0]
        # let v = if c { return e } else { x }; rest   ==   if c { return e } else { let v = x; rest }
        for i, x in enumerate(items):
            if _is(x, "let") and len(x) == 3 and _is(x[2], "if") and len(x[2]) == 4 and _always_returns(x[2][2]) and not _always_returns(x[2][3]):
                rest = tuple(items[i + 1:])
                new_if = ("if", x[2][1], x[2][2], normalise(("seq", ("let", x[1], x[2][3])) + rest))
                head = list(items[:i])
                return normalise(("seq",) + tuple(head) + (new_if,)) if head else normalise(new_if)
            if _is(x, "let") and len(x) == 3 and _is(x[2], "if") and len(x[2]) == 4 and _always_returns(x[2][3]) and not _always_returns(x[2][2]):
                rest = tuple(items[i + 1:])
                new_if = ("if", x[2][1], normalise(("seq", ("let", x[1], x[2][2])) + rest), x[2][3])
                head = list(items[:i])
                return normalise(("seq",) + tuple(head) + (new_if,)) if head else normalise(new_if)
        # let x = y (y a local that is not used afterwards): x is y
        for i, x in enumerate(items):
            if _is(x, "let") and len(x) == 3 and _is(x[2], "var") and isinstance(x[2][1], str) and re.match(r"^[mv]\d+$", x[2][1]) and isinstance(x[1], str):
                rest = items[i + 1:]
                if not any(y == x[2] for r_ in rest for y in _subterms(r_)):
                    def rn(z, a=x[1], b=x[2][1]):
                        if isinstance(z, tuple):
                            if z == ("var", a):
                                return ("var", b)
                            return tuple(rn(w) for w in z)
                        return z
                    return normalise(("seq",) + tuple(items[:i]) + tuple(rn(r_) for r_ in rest))
        # early-exit guard:  (if c (return X)) ; rest   ==>  (if c X rest)
        for i, x in enumerate(items):
            if _is(x, "if") and x[3] == ("unit",) and _always_returns(x[2]) and i < len(items) - 1:
                rest = items[i + 1:]
                rest_t = rest[0] if len(rest) == 1 else normalise(("seq",) + tuple(rest))
                new = _flip_not(("if", x[1], x[2], rest_t))
                head = items[:i]
                if head:
                    return normalise(("seq",) + tuple(head) + (new,))
                return new
        # a tail loop that is left only by `return X`:  loop {.. return X ..}  ==  loop {.. break ..}; X
        if items and _is(items[-1], "loop") and len(items[-1]) == 2:
            rets = [x for x in _subterms(items[-1]) if _is(x, "return")]
            brks = [x for x in _subterms(items[-1]) if _is(x, "break")]
            if rets and not brks and all(r == rets[0] for r in rets) and rets[0][1] != ("Err",) and not any(_is(x, "loop") or _is(x, "for") for x in _subterms(items[-1][1])):
                def rb(x):
                    if isinstance(x, tuple):
                        if x == rets[0]:
                            return ("break",)
                        return tuple(rb(y) for y in x)
                    return x
                items = items[:-1] + [rb(items[-1]), rets[0][1]]
                return normalise(("seq",) + tuple(items))
        if len(items) == 1:
            return items[0]
        return ("seq",) + tuple(items)
    if h == "if" and len(t) == 4 and _is(t[1], "iflet") and len(t[1]) == 3 and _is(t[1][2], "call") and len(t[1][2]) == 4 and t[1][2][1] == "Chars.next_if" \
            and _is(t[1][1], "pvar") and t[1][1][1] == "Option::Some" and len(t[1][1]) == 3 and _is(t[1][1][2], "bind"):
        # if let Some(c) = it.next_if(pred) {A(c)} else {B}
        #   ==  if let Some(p) = it.peek() { if pred(p) {A(it.next()?)} else {B} } else {B}        (c used once in A)
        b = t[1][1][2][1]
        it, pred = t[1][2][2], t[1][2][3]
        uses = sum(1 for x in _subterms(t[2]) if x == ("var", b))
        if uses == 1 and (_is(pred, "lambda") and len(pred[1]) == 1 and _is(pred[1][0], "bind") or _is(pred, "fnref")):
            cond = ("icall", pred, ("var", b)) if _is(pred, "fnref") else None
            if cond is None:
                pv = pred[1][0][1]

                def sp(z):
                    if isinstance(z, tuple):
                        if z == ("var", pv):
                            return ("var", b)
                        return tuple(sp(w) for w in z)
                    return z
                cond = sp(pred[2])
            else:
                cond = ("call", pred[1], ("var", b))

            def sa(z):
                if isinstance(z, tuple):
                    if z == ("var", b):
                        return ("try", ("call", "Chars.next", it))
                    return tuple(sa(w) for w in z)
                return z
            return normalise(("if", ("iflet", t[1][1], ("call", "Chars.peek", it)), ("if", cond, sa(t[2]), t[3]), t[3]))
    if h == "if" and len(t) == 4 and _is(t[1], "iflet") and len(t[1]) == 3 and _is(t[1][2], "bindopt") and len(t[1][2]) == 4 and _is(t[1][2][2], "bind") \
            and _is(t[1][1], "pvar") and t[1][1][1] == "Option::Some":
        # if let Some(b) = x.and_then(|v| f(v)) {A} else {B}  ==  if let Some(v) = x { if let Some(b) = f(v) {A} else {B} } else {B}
        x, vb, fbody = t[1][2][1], t[1][2][2], t[1][2][3]
        v = vb[1]
        if v == "_f":
            _FOLD_CTR[0] += 1
            nv = "b%d" % _FOLD_CTR[0]

            def rn(z):
                if isinstance(z, tuple):
                    if z == ("var", "_f"):
                        return ("var", nv)
                    return tuple(rn(w) for w in z)
                return z
            fbody, v = rn(fbody), nv
        return normalise(("if", ("iflet", ("pvar", "Option::Some", ("bind", v)), x), ("if", ("iflet", t[1][1], fbody), t[2], t[3]), t[3]))
    if h == "if" and len(t) == 4 and _is(t[1], "call") and t[1][1] == "Option::is_some" and len(t[1]) == 3 and _is(t[1][2], "call") and t[1][2][1] == "Chars.next_if_eq" \
            and len(t[1][2]) == 4 and _is(t[1][2][3], "char"):
        # if it.next_if_eq(&'c').is_some() {A} else {B}   ==   if <next char is 'c'> { consume it; A } else {B}
        it, c = t[1][2][2], t[1][2][3][1]
        look = ("call", "Iterator::collect::<String>", ("call", "Chars.take", it, ("lit", "1", "usize")))
        consume = ("call", "TakeRef.for_each", ("call", "CharsRef.take", ("call", "Chars.by_ref", it), ("lit", "1", "usize")), ("fnref", "std::mem::drop"))
        return normalise(("if", ("call", "<String as cmp::PartialEq>::eq", look, ("str", c)), ("seq", consume, t[2]), t[3]))
    if h == "if" and len(t) == 4 and t[3] == ("lit", "false", "bool"):
        return normalise(("op", "and", "bool", t[1], t[2]))        # if a {b} else {false}  ==  a && b
    if h == "if" and len(t) == 4 and t[2] == ("lit", "true", "bool"):
        return normalise(("op", "or", "bool", t[1], t[3]))         # if a {true} else {b}  ==  a || b
    if h == "if":
        t = _flip_not(t)
    if h == "set" and len(t) == 3 and _is(t[2], "op") and len(t[2]) == 5 and t[2][3] == t[1] and t[2][1] in ("add", "sub", "mul", "div", "rem"):
        return ("setop", t[2][1], t[2][2], t[1], t[2][4])       # x = x op e  ==  x op= e
    if h == "set" and len(t) == 3 and isinstance(t[1], tuple) and t[1][0] in ("var", "field"):
        # x = match s {p => a, q => b}   ==  match s {p => x = a, q => x = b}      (likewise if)
        if _is(t[2], "match") and len(t[2]) > 2 and all(len(a) == 2 for a in t[2][2:]):
            return normalise(("match", t[2][1]) + tuple((a[0], ("set", t[1], a[1])) for a in t[2][2:]))
        if _is(t[2], "if") and len(t[2]) == 4 and t[2][3] != ("unit",):
            return normalise(("if", t[2][1], ("set", t[1], t[2][2]), ("set", t[1], t[2][3])))
    if h == "match" and len(t) == 4 and len(t[2]) == 2 and len(t[3]) == 2 and t[3][0] == "_" and t[2][1] == ("lit", "true", "bool") and t[3][1] == ("lit", "false", "bool"):
        # matches!(c, '0'..='9' | '.')   ==   c.is_ascii_digit() || c == '.'        (character tests)
        alts = t[2][0][1:] if _is(t[2][0], "por") else (t[2][0],)
        tests = []
        for a in alts:
            if _is(a, "prange") and len(a) == 5 and a[4] == "char" and (a[1], a[2], a[3]) in (("48", "57", "Included"), (48, 57, "Included")):
                tests.append(("call", "char::is_ascii_digit", t[1]))
            elif _is(a, "char") and len(a) == 2:
                tests.append(("op", "eq", "char", t[1], a))
            else:
                tests = None
                break
        if tests:
            c = tests[0]
            for x in tests[1:]:
                c = ("op", "or", "bool", c, x)
            return c
        # matches!(opt, Some(p))  ==  `if let Some(p) = opt` as a condition
        if _is(t[2][0], "pvar") and t[2][0][1] in ("Option::Some", "Option::None"):
            return ("iflet", t[2][0], t[1])
    if h == "match" and len(t) == 4 and len(t[2]) == 3 and len(t[3]) == 2 and t[3][0] == "_":
        # match s {P if g => a, _ => b}   ==  match s {P => if g {a} else {b}, _ => b}
        t = ("match", t[1], (t[2][0], normalise(("if", t[2][1], t[2][2], t[3][1]))), t[3])
    if h == "match" and len(t) == 4 and len(t[2]) == 2 and len(t[3]) == 2 and t[3][0] == "_" and _is(t[2][0], "pvar") and t[2][0][1] == "Option::Some":
        t = ("match", t[1], t[2], (("pvar", "Option::None"), t[3][1]))
    if h == "match" and len(t) >= 3 and isinstance(t[1], tuple) and t[1]:
        sc_ = t[1]
        # case of a known constructor
        if sc_[0] in ("Some", "None", "Ok", "Err") or (sc_[0] == "ctor" and isinstance(sc_[1], str)):
            cname = {"Some": "Option::Some", "None": "Option::None", "Ok": "Result::Ok", "Err": "Result::Err"}.get(sc_[0], sc_[1] if sc_[0] == "ctor" else None)
            fields = sc_[1:] if sc_[0] != "ctor" else sc_[2:]
            for a in t[2:]:
                if len(a) != 2:
                    break
                p_ = a[0]
                if p_ == "_" or _is(p_, "bind"):
                    break
                if _is(p_, "pvar") and p_[1] == cname and len(p_) - 2 == len(fields) and all(x == "_" or _is(x, "bind") for x in p_[2:]):
                    env = {x[1]: f_ for x, f_ in zip(p_[2:], fields) if _is(x, "bind")}

                    def sv(x, env=env):
                        if isinstance(x, tuple):
                            if len(x) == 2 and x[0] == "var" and x[1] in env:
                                return env[x[1]]
                            return tuple(sv(y) for y in x)
                        return x
                    return normalise(sv(a[1]))
                if _is(p_, "pvar") and p_[1] != cname and p_[1].split("::")[0] == (cname or "").split("::")[0]:
                    continue
                break
        # match (if c {A} else {B}) {arms}  ==  if c {match A {arms}} else {match B {arms}}   (small arms only)
        if sc_[0] == "if" and len(sc_) == 4 and term_size(t) <= 120 and all(len(a) == 2 for a in t[2:]):
            ca = sc_[2][0] if isinstance(sc_[2], tuple) and sc_[2] else None
            cb = sc_[3][0] if isinstance(sc_[3], tuple) and sc_[3] else None
            if ca in ("Some", "None", "Ok", "Err", "if") and cb in ("Some", "None", "Ok", "Err", "if"):
                return normalise(("if", sc_[1], ("match", sc_[2]) + t[2:], ("match", sc_[3]) + t[2:]))
    if h == "match" and len(t) == 4:
        # match X { Some(v) => v, None => return Err }  ==> (try (lift X))
        a, b = t[2], t[3]
        for (s, n) in ((a, b), (b, a)):
            if len(s) == 2 and len(n) == 2 and _is(s[0], "pvar") and s[0][1] == "Option::Some" and len(s[0]) == 3 and _is(s[0][2], "bind") and _is(n[0], "pvar") and n[0][1] == "Option::None":
                if s[1] == ("var", s[0][2][1]) and n[1] == ("return", ("Err",)):
                    return ("try", ("lift", t[1]))
    if h == "match" and len(t) == 4:
        # match X { Some(v) => Ok(v), None => Err }  ==> (lift X)
        a, b = t[2], t[3]
        for (s, n) in ((a, b), (b, a)):
            if _is(s[0], "pvar") and s[0][1] == "Option::Some" and len(s[0]) == 3 and _is(s[0][2], "bind") and _is(n[0], "pvar") and n[0][1] == "Option::None":
                v = ("var", s[0][2][1])
                if s[-1] == ("Ok", v) and n[-1] == ("Err",):
                    return ("lift", t[1])
    if h == "lift" and len(t) == 2:
        x = t[1]
        if x == ("None",):
            return ("Err",)
        if _is(x, "Some") and len(x) == 2:
            return ("Ok", x[1])
        if _is(x, "if") and len(x) == 4:
            return ("if", x[1], normalise(("lift", x[2])), normalise(("lift", x[3])))
        if _is(x, "match") and len(x) > 2 and all(len(a) == 2 for a in x[2:]):
            return ("match", x[1]) + tuple((a[0], normalise(("lift", a[1]))) for a in x[2:])
        if _is(x, "seq") and len(x) > 2:
            return x[:-1] + (normalise(("lift", x[-1])),)
        fo = _fold_loop(x, "option")
        if fo is not None:
            return normalise(fo)
    if h == "call" and isinstance(t[1], str):
        fo = _fold_loop(t, "plain")
        if fo is not None:
            return normalise(fo)
    if h == "try" and _is(t[1], "call"):
        fo = _fold_loop(t[1], "result-value")
        if fo is not None:
            return normalise(fo)
        c = t[1]
        # iter.map(f).collect::<Result<Vec<_>, _>>()?   ==   let mut v = Vec::new(); for x in iter { v.push(f(x)?) }; v
        if len(c) == 3 and isinstance(c[1], str) and c[1].startswith("Iterator::collect::<Vec<") and _is(c[2], "call") and len(c[2]) == 4 and isinstance(c[2][1], str) and c[2][1].endswith("iter::Iterator>::map"):
            it, f_ = c[2][2], c[2][3]
            if _is(f_, "lambda") and len(f_[1]) == 1 and _is(f_[1][0], "bind") or _is(f_, "fnref"):
                _FOLD_CTR[0] += 1
                m = "m%d" % _FOLD_CTR[0]
                xn = f_[1][0][1] if _is(f_, "lambda") else "b%d" % _FOLD_CTR[0]
                body = f_[2] if _is(f_, "lambda") else ("icall", f_, ("var", xn))
                if not (_is(it, "call") and it[1] == "iter") and not (_is(it, "range") or _is(it, "rangei")):
                    it = ("call", "iter", it)
                return normalise(("seq", ("let", m, ("call", "Vec::new")), ("for", ("bind", xn), it, ("call", "Vec::push", ("var", m), ("try", body))), ("var", m)))
    if h == "try" and _is(t[1], "lift"):
        return ("try", t[1])
    if h == "try" and _is(t[1], "Ok") and len(t[1]) == 2:
        return t[1][1]
    if h == "try" and t[1] == ("Err",):
        return ("return", ("Err",))
    if h == "try" and _is(t[1], "if") and len(t[1]) == 4:
        return ("if", t[1][1], normalise(("try", t[1][2])), normalise(("try", t[1][3])))
    if h == "try" and _is(t[1], "match") and len(t[1]) > 2:
        return ("match", t[1][1]) + tuple(a[:-1] + (normalise(("try", a[-1])),) for a in t[1][2:])
    if h == "try" and _is(t[1], "seq") and len(t[1]) > 2:
        return t[1][:-1] + (normalise(("try", t[1][-1])),)
    if h == "try" and _is(t[1], "call") and len(t[1]) == 4 and t[1][1] == "Result::map" and (_is(t[1][3], "lambda") or _is(t[1][3], "fnref")):
        # r.map(f)?  ==  f(r?)
        return normalise(("icall", t[1][3], ("try", t[1][2])))
    if h == "try" and _is(t[1], "call") and len(t[1]) == 4 and t[1][1] == "Result::and_then" and (_is(t[1][3], "lambda") or _is(t[1][3], "fnref")):
        # r.and_then(f)?  ==  f(r?)?
        return ("try", normalise(("icall", t[1][3], ("try", t[1][2]))))
    if h == "icall" and len(t) >= 2 and _is(t[1], "lambda") and len(t[1]) == 3 and len(t[1][1]) == len(t) - 2 and all(_is(b_, "bind") for b_ in t[1][1]):
        env = {b_[1]: a_ for b_, a_ in zip(t[1][1], t[2:])}

        def sv(x):
            if isinstance(x, tuple):
                if len(x) == 2 and x[0] == "var" and x[1] in env:
                    return env[x[1]]
                return tuple(sv(y) for y in x)
            return x
        return normalise(sv(t[1][2]))
    if h == "Ok" and len(t) == 2 and _is(t[1], "try") and _is(t[1][1], "lift"):
        return t[1][1]
    if h == "ctor" and len(t) == 3 and _is(t[2], "seq") and len(t[2]) > 2:
        return normalise(t[2][:-1] + (("ctor", t[1], t[2][-1]),))
    if h in ("ctor",) and len(t) == 3 and _is(t[2], "if") and len(t[2]) == 4 and _is(t[2][2], "return"):
        # C(if c {return e} else {x})  ==  if c {return e} else {C(x)}
        return normalise(("if", t[2][1], t[2][2], ("ctor", t[1], t[2][3])))
    if h == "try" and t[1] == ("None",):
        return ("return", ("None",))
    if h == "try" and _is(t[1], "return"):
        return t[1]
    if h == "try" and _is(t[1], "Some") and len(t[1]) == 2:
        return t[1][1]
    # W(if c {x} else {return r})  ==  if c {W(x)} else {return r}      (W: a wrapper with one operand)
    if h in ("okopt", "Some", "try") and len(t) == 2 and _is(t[1], "if") and len(t[1]) == 4 and _is(t[1][3], "return"):
        return normalise(("if", t[1][1], (h, t[1][2]), t[1][3]))
    if h == "call" and len(t) == 3 and isinstance(t[1], str) and t[1] != "iter" and _is(t[2], "if") and len(t[2]) == 4 and _is(t[2][3], "return"):
        return normalise(("if", t[2][1], ("call", t[1], t[2][2]), t[2][3]))
    if h == "ctor" and len(t) == 3 and _is(t[2], "if") and len(t[2]) == 4 and _is(t[2][3], "return"):
        return normalise(("if", t[2][1], ("ctor", t[1], t[2][2]), t[2][3]))
    if h in ("okopt", "Some") and len(t) == 2 and _is(t[1], "seq") and len(t[1]) > 2:
        return normalise(t[1][:-1] + ((h, t[1][-1]),))
    if h == "Ok" and len(t) == 2 and _is(t[1], "seq") and len(t[1]) > 2:
        return normalise(t[1][:-1] + (("Ok", t[1][-1]),))
    if h == "Ok" and len(t) == 2 and _is(t[1], "match") and len(t[1]) > 2:
        return ("match", t[1][1]) + tuple(a[:-1] + (normalise(("Ok", a[-1])),) for a in t[1][2:])
    if h == "Ok" and len(t) == 2 and _is(t[1], "if") and len(t[1]) == 4:
        c = t[1]
        return ("if", c[1], normalise(("Ok", c[2])), normalise(("Ok", c[3])))
    return t


def _subterms(t):
    yield t
    if isinstance(t, tuple):
        for x in t:
            for y in _subterms(x):
                yield y


def monad_tail(t, rec_names=()):
    """Tail position of a function returning Result:  r.map(f) == Ok(f(r?)),  r.and_then(f) == f(r?),
    eval(x) == Ok(eval(x)?)"""
    if _is(t, "call") and len(t) == 4 and t[1] == "Result::map" and (_is(t[3], "lambda") or _is(t[3], "fnref")):
        return ("Ok", normalise(("icall", t[3], ("try", t[2]))))
    if _is(t, "call") and len(t) == 4 and t[1] == "Result::and_then" and (_is(t[3], "lambda") or _is(t[3], "fnref")):
        return monad_tail(normalise(("icall", t[3], ("try", t[2]))), rec_names)
    if _is(t, "call") and len(t) == 3 and t[1] in rec_names:
        return ("Ok", ("ev", t[2]))
    fo = _fold_loop(t, "result-value") if _is(t, "call") else None
    if fo is not None:
        return normalise(fo[:-1] + (("Ok", fo[-1]),))
    if _is(t, "if") and len(t) == 4 and _is(t[1], "iflet") and len(t[1]) == 3 and t[3] == ("Err",):
        # if let P = x {a} else {Err}  ==  match x {P => a, _ => Err}
        t = ("match", t[1][2], (t[1][1], t[2]), ("_", t[3]))
    if _is(t, "match") and len(t) == 4 and all(len(a) == 2 for a in t[2:]):
        # match x { Some(v) => BODY, None => Err }  (tail)  ==  BODY[v := x.ok_or(..)?]       (`if let Some(v) = x {..} else {Err}`)
        for (s_, n_) in ((t[2], t[3]), (t[3], t[2])):
            if _is(s_[0], "pvar") and s_[0][1] == "Option::Some" and len(s_[0]) == 3 and _is(s_[0][2], "bind") and (n_[0] == "_" or (_is(n_[0], "pvar") and n_[0][1] == "Option::None")) and n_[1] == ("Err",):
                v = s_[0][2][1]
                uses = sum(1 for x in _subterms(s_[1]) if x == ("var", v))
                if uses == 1:
                    def sv(x, v=v, val=("try", ("lift", t[1]))):
                        if isinstance(x, tuple):
                            if x == ("var", v):
                                return val
                            return tuple(sv(y) for y in x)
                        return x
                    return monad_tail(normalise(sv(s_[1])), rec_names)
    if _is(t, "if") and len(t) == 4:
        return ("if", t[1], monad_tail(t[2], rec_names), monad_tail(t[3], rec_names))
    if _is(t, "seq"):
        return t[:-1] + (monad_tail(t[-1], rec_names),)
    if _is(t, "match"):
        return t[:2] + tuple(a[:-1] + (monad_tail(a[-1], rec_names),) for a in t[2:])
    if _is(t, "return"):
        return ("return", monad_tail(t[1], rec_names))
    return t


def mark_ev(t, rec_names):
    """(try (call <tree-walk fn> x))  ==>  (ev x)"""
    if isinstance(t, tuple):
        t = tuple(mark_ev(x, rec_names) for x in t)
        if len(t) == 2 and t[0] == "try" and _is(t[1], "call") and len(t[1]) == 3 and t[1][1] in rec_names:
            return ("ev", t[1][2])
    return t


def term_size(t):
    if isinstance(t, tuple):
        return 1 + sum(term_size(x) for x in t)
    return 1


def subst_params(t, mapping):
    if isinstance(t, tuple):
        if len(t) == 2 and t[0] == "param" and t[1] in mapping:
            return mapping[t[1]]
        return tuple(subst_params(x, mapping) for x in t)
    return t


def tail_value(t):
    """Treat `return X` in tail position as X (after normalise)."""
    if _is(t, "return"):
        return t[1]
    return t


def alpha(t):
    """Rename generated variable names (b3, m2, v7 ...) in order of first appearance."""
    mapping = {}

    def ren(x):
        if isinstance(x, tuple):
            if len(x) == 2 and x[0] in ("var", "bind") and isinstance(x[1], str) and re.match(r"^[bmv]\d+$", x[1]):
                if x[1] not in mapping:
                    mapping[x[1]] = "%s%d" % (x[1][0], len(mapping))
                return (x[0], mapping[x[1]])
            if len(x) >= 2 and x[0] in ("let", "bind@") and isinstance(x[1], str) and re.match(r"^[bmv]\d+$", x[1]):
                if x[1] not in mapping:
                    mapping[x[1]] = "%s%d" % (x[1][0], len(mapping))
                return (x[0], mapping[x[1]]) + tuple(ren(y) for y in x[2:])
            return tuple(ren(y) for y in x)
        return x
    return ren(t)


def strip_tail_returns(t):
    """Remove `return` wrappers in tail position (the value of the function)."""
    if _is(t, "return"):
        return strip_tail_returns(t[1])
    if _is(t, "if") and len(t) == 4:
        return ("if", t[1], strip_tail_returns(t[2]), strip_tail_returns(t[3]))
    if _is(t, "seq"):
        return t[:-1] + (strip_tail_returns(t[-1]),)
    if _is(t, "match"):
        arms = []
        for a in t[2:]:
            arms.append(a[:-1] + (strip_tail_returns(a[-1]),))
        return t[:2] + tuple(arms)
    return t


def is_effect_call(t, prefixes=("P.",)):
    return _is(t, "call") and isinstance(t[1], str) and t[1].startswith(prefixes)


def anf(t, counter=None, prefixes=("P.",)):
    """A-normal form w.r.t. effectful crate calls: every nested `(try (call P.x ..))`
    or `(call P.x ..)` that is an argument of another expression is hoisted into a
    preceding (let hN ..) in evaluation order.  Branches are normalised separately."""
    if counter is None:
        counter = [0]

    def fresh():
        counter[0] += 1
        return "h%d" % counter[0]

    def is_eff(x):
        return (_is(x, "try") and is_effect_call(x[1], prefixes)) or is_effect_call(x, prefixes)

    def value(x, lets):
        """rewrite expression x, hoisting nested effect calls into lets"""
        if not isinstance(x, tuple):
            return x
        h = x[0] if x else None
        if h in ("if", "match", "seq", "loop", "for", "lambda"):
            return stmt(x)
        if h == "try" and is_effect_call(x[1], prefixes):
            c = x[1]
            return ("try", c[:2] + tuple(value_arg(a, lets) for a in c[2:]))
        new = []
        for i, y in enumerate(x):
            if isinstance(y, tuple):
                y2 = value(y, lets)
                if is_eff(y2):
                    v = fresh()
                    lets.append(("let", v, y2))
                    y2 = ("var", v)
                new.append(y2)
            else:
                new.append(y)
        return tuple(new)

    def value_arg(y, lets):
        if not isinstance(y, tuple):
            return y
        y2 = value(y, lets)
        if is_eff(y2):
            v = fresh()
            lets.append(("let", v, y2))
            y2 = ("var", v)
        return y2

    def stmt(x):
        if not isinstance(x, tuple):
            return x
        h = x[0] if x else None
        if h == "seq":
            items = []
            for y in x[1:]:
                r = stmt(y)
                if _is(r, "seq"):
                    items.extend(r[1:])
                else:
                    items.append(r)
            return ("seq",) + tuple(items)
        if h == "if":
            lets = []
            c = value(x[1], lets)
            r = ("if", c) + tuple(stmt(y) for y in x[2:])
            return ("seq",) + tuple(lets) + (r,) if lets else r
        if h == "match":
            lets = []
            s = value(x[1], lets)
            if is_eff(s):
                v = fresh()
                lets.append(("let", v, s))
                s = ("var", v)
            arms = tuple(a[:-1] + (stmt(a[-1]),) for a in x[2:])
            r = ("match", s) + arms
            return ("seq",) + tuple(lets) + (r,) if lets else r
        if h == "loop":
            return ("loop", stmt(x[1]))
        if h == "for":
            lets = []
            it = value(x[2], lets)
            r = ("for", x[1], it, stmt(x[3]))
            return ("seq",) + tuple(lets) + (r,) if lets else r
        if h == "lambda":
            return x
        if h == "let":
            lets = []
            if isinstance(x[2], tuple) and x[2] and x[2][0] in ("if", "match", "seq"):
                return ("let", x[1], stmt(x[2]))
            v = value(x[2], lets)
            r = ("let", x[1], v)
            return ("seq",) + tuple(lets) + (r,) if lets else r
        lets = []
        if is_eff(x):
            inner = value(x, lets)
            return ("seq",) + tuple(lets) + (inner,) if lets else inner
        v = value(x, lets)
        return ("seq",) + tuple(lets) + (v,) if lets else v

    return normalise_seq_only(stmt(t))


def normalise_seq_only(t):
    if not isinstance(t, tuple):
        return t
    t = tuple(normalise_seq_only(x) for x in t)
    if _is(t, "seq"):
        flat = []
        for x in t[1:]:
            if _is(x, "seq"):
                flat.extend(x[1:])
            else:
                flat.append(x)
        if len(flat) == 1:
            return flat[0]
        return ("seq",) + tuple(flat)
    return t
