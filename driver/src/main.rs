// scfacts — fact extractor for the string_calculator static checks.
// A rustc driver (rustc_private): type-checks the crate exactly as cargo would
// build it and writes one JSON document with items, THIR (typed, resolved
// expression trees) and MIR of every body owner. Nothing is executed.
#![feature(rustc_private)]
#![allow(clippy::all)]

extern crate rustc_abi;
extern crate rustc_ast;
extern crate rustc_driver;
extern crate rustc_hir;
extern crate rustc_interface;
extern crate rustc_middle;
extern crate rustc_session;
extern crate rustc_span;

mod json;
mod mirx;
mod thirx;

use json::J;
use rustc_driver::Compilation;
use rustc_hir::def::DefKind;
use rustc_hir::def_id::{DefId, LocalDefId, CRATE_DEF_ID};
use rustc_interface::interface;
use rustc_middle::ty::{self, TyCtxt};
use rustc_span::Span;

struct Cb;

pub fn span_j(tcx: TyCtxt<'_>, sp: Span) -> J {
    let sm = tcx.sess.source_map();
    let lo = sm.lookup_char_pos(sp.lo());
    let hi = sm.lookup_char_pos(sp.hi());
    J::Arr(vec![
        J::Int(lo.line as i128),
        J::Int(lo.col.0 as i128 + 1),
        J::Int(hi.line as i128),
        J::Int(hi.col.0 as i128 + 1),
        J::Bool(sp.from_expansion()),
    ])
}

pub fn span_file(tcx: TyCtxt<'_>, sp: Span) -> String {
    let sm = tcx.sess.source_map();
    let lo = sm.lookup_char_pos(sp.lo());
    format!("{}", lo.file.name.prefer_local_unconditionally())
}

pub fn ty_s<'tcx>(t: ty::Ty<'tcx>) -> String {
    rustc_middle::ty::print::with_no_trimmed_paths!(format!("{}", t))
}

pub fn path_s(tcx: TyCtxt<'_>, d: DefId) -> String {
    rustc_middle::ty::print::with_no_trimmed_paths!(tcx.def_path_str(d))
}

/// Resolve a (possibly trait) fn def + args to the concrete instance when possible.
pub fn fn_j<'tcx>(
    tcx: TyCtxt<'tcx>,
    owner: DefId,
    d: DefId,
    args: ty::GenericArgsRef<'tcx>,
) -> J {
    let def = path_s(tcx, d);
    let gargs: Vec<J> = args
        .iter()
        .map(|a| J::s(rustc_middle::ty::print::with_no_trimmed_paths!(format!("{}", a))))
        .collect();
    let mut inst_path = J::Null;
    let mut inst_full = J::Null;
    let mut inst_local = J::Bool(false);
    let mut self_ty = J::Null;
    let mut kind = J::Null;
    let mut trait_j = J::Null;
    if let Some(tr) = tcx.trait_of_assoc(d) {
        trait_j = J::s(path_s(tcx, tr));
        if let Some(a0) = args.iter().next() {
            if let Some(t) = a0.as_type() {
                self_ty = J::s(ty_s(t));
            }
        }
    } else if let Some(imp) = tcx.inherent_impl_of_assoc(d) {
        let t = tcx.type_of(imp).instantiate(tcx, args).skip_norm_wip();
        self_ty = J::s(ty_s(t));
    }
    let env = ty::TypingEnv::post_analysis(tcx, owner);
    if let Ok(Some(i)) = ty::Instance::try_resolve(tcx, env, d, args) {
        let id = i.def_id();
        inst_path = J::s(path_s(tcx, id));
        inst_full = J::s(rustc_middle::ty::print::with_no_trimmed_paths!(
            tcx.def_path_str_with_args(id, i.args)
        ));
        inst_local = J::Bool(id.is_local());
        kind = J::s(match i.def {
            ty::InstanceKind::Item(_) => "item",
            ty::InstanceKind::Intrinsic(_) => "intrinsic",
            ty::InstanceKind::Virtual(..) => "virtual",
            ty::InstanceKind::ClosureOnceShim { .. } => "closure_once_shim",
            ty::InstanceKind::FnPtrShim(..) => "fnptr_shim",
            ty::InstanceKind::DropGlue(..) => "drop_glue",
            ty::InstanceKind::CloneShim(..) => "clone_shim",
            ty::InstanceKind::ReifyShim(..) => "reify_shim",
            _ => "other",
        });
    }
    obj! {
        "def": J::s(def),
        "gargs": J::Arr(gargs),
        "self_ty": self_ty,
        "trait": trait_j,
        "inst": inst_path,
        "inst_full": inst_full,
        "inst_local": inst_local,
        "inst_kind": kind,
        "krate": J::s(tcx.crate_name(d.krate).to_string()),
    }
}

fn items(tcx: TyCtxt<'_>) -> (J, J, J, J, J) {
    let mut adts = vec![];
    let mut statics = vec![];
    let mut impls = vec![];
    let mut consts = vec![];
    let mut misc = vec![];
    for id in tcx.hir_crate_items(()).definitions() {
        let did = id.to_def_id();
        let kind = tcx.def_kind(did);
        match kind {
            DefKind::Enum | DefKind::Struct | DefKind::Union => {
                let adt = tcx.adt_def(did);
                let mut vs = vec![];
                for v in adt.variants() {
                    let fields: Vec<J> = v
                        .fields
                        .iter()
                        .map(|f| {
                            let t = tcx.type_of(f.did).instantiate_identity().skip_norm_wip();
                            obj! {"name": J::s(f.name.to_string()), "ty": J::s(ty_s(t))}
                        })
                        .collect();
                    vs.push(obj! {"name": J::s(v.name.to_string()), "fields": J::Arr(fields)});
                }
                let t = tcx.type_of(did).instantiate_identity().skip_norm_wip();
                let env = ty::TypingEnv::post_analysis(tcx, did);
                adts.push(obj! {
                    "path": J::s(path_s(tcx, did)),
                    "kind": J::s(format!("{:?}", kind)),
                    "variants": J::Arr(vs),
                    "freeze": J::Bool(t.is_freeze(tcx, env)),
                    "file": J::s(span_file(tcx, tcx.def_span(did))),
                    "span": span_j(tcx, tcx.def_span(did)),
                });
            }
            DefKind::Static { mutability, nested, .. } => {
                let t = tcx.type_of(did).instantiate_identity().skip_norm_wip();
                let env = ty::TypingEnv::post_analysis(tcx, did);
                statics.push(obj! {
                    "path": J::s(path_s(tcx, did)),
                    "mutable": J::Bool(mutability.is_mut()),
                    "nested": J::Bool(nested),
                    "ty": J::s(ty_s(t)),
                    "freeze": J::Bool(t.is_freeze(tcx, env)),
                    "thread_local": J::Bool(tcx.is_thread_local_static(did)),
                    "file": J::s(span_file(tcx, tcx.def_span(did))),
                    "span": span_j(tcx, tcx.def_span(did)),
                });
            }
            DefKind::Const { .. } | DefKind::AssocConst { .. } => {
                let t = tcx.type_of(did).instantiate_identity().skip_norm_wip();
                consts.push(obj! {
                    "path": J::s(path_s(tcx, did)),
                    "ty": J::s(ty_s(t)),
                    "file": J::s(span_file(tcx, tcx.def_span(did))),
                });
            }
            DefKind::Impl { of_trait } => {
                let self_ty = tcx.type_of(did).instantiate_identity().skip_norm_wip();
                let tr = if of_trait {
                    let t = tcx.impl_trait_ref(did).instantiate_identity().skip_norm_wip();
                    J::s(path_s(tcx, t.def_id))
                } else {
                    J::Null
                };
                let safety = if of_trait {
                    J::s(format!("{:?}", tcx.impl_trait_header(did).safety))
                } else {
                    J::Null
                };
                impls.push(obj! {
                    "trait": tr,
                    "self_ty": J::s(ty_s(self_ty)),
                    "derived": J::Bool(tcx.is_automatically_derived(did)),
                    "safety": safety,
                    "file": J::s(span_file(tcx, tcx.def_span(did))),
                    "span": span_j(tcx, tcx.def_span(did)),
                });
            }
            DefKind::ForeignMod | DefKind::GlobalAsm | DefKind::ForeignTy => {
                misc.push(obj! {
                    "kind": J::s(format!("{:?}", kind)),
                    "path": J::s(path_s(tcx, did)),
                    "file": J::s(span_file(tcx, tcx.def_span(did))),
                });
            }
            DefKind::Fn | DefKind::AssocFn => {
                let sig = tcx.fn_sig(did).instantiate_identity().skip_norm_wip();
                let safety = format!("{:?}", sig.safety());
                if safety != "Safe" || tcx.is_foreign_item(did) {
                    misc.push(obj! {
                        "kind": J::s(if tcx.is_foreign_item(did) {"ForeignFn".to_string()} else {format!("UnsafeFn")}),
                        "path": J::s(path_s(tcx, did)),
                        "file": J::s(span_file(tcx, tcx.def_span(did))),
                    });
                }
            }
            _ => {}
        }
    }
    (J::Arr(adts), J::Arr(statics), J::Arr(impls), J::Arr(consts), J::Arr(misc))
}

fn exports(tcx: TyCtxt<'_>) -> J {
    let mut out = vec![];
    for ch in tcx.module_children_local(CRATE_DEF_ID) {
        let vis = ch.vis;
        let name = ch.ident.name.to_string();
        let (kind, path) = match ch.res.opt_def_id() {
            Some(d) => (format!("{:?}", tcx.def_kind(d)), path_s(tcx, d)),
            None => ("?".to_string(), String::new()),
        };
        out.push(obj! {
            "name": J::s(name),
            "public": J::Bool(vis.is_public()),
            "kind": J::s(kind),
            "path": J::s(path),
            "reexport": J::Bool(!ch.reexport_chain.is_empty()),
        });
    }
    J::Arr(out)
}

fn bodies(tcx: TyCtxt<'_>) -> J {
    let want_thir = std::env::var("SCFACTS_THIR").map(|v| v != "0").unwrap_or(true);
    let want_mir = std::env::var("SCFACTS_MIR").map(|v| v != "0").unwrap_or(true);
    let mut out = vec![];
    let owners: Vec<LocalDefId> = tcx.hir_body_owners().collect();
    for ldid in owners {
        let did = ldid.to_def_id();
        let kind = tcx.def_kind(did);
        let is_fn = matches!(kind, DefKind::Fn | DefKind::AssocFn | DefKind::Closure);
        let sp = tcx.def_span(did);
        let mut fields: Vec<(&'static str, J)> = vec![
            ("path", J::s(path_s(tcx, did))),
            ("kind", J::s(format!("{:?}", kind))),
            ("file", J::s(span_file(tcx, sp))),
            ("span", span_j(tcx, sp)),
            ("from_expansion", J::Bool(sp.from_expansion())),
        ];
        if matches!(kind, DefKind::Fn | DefKind::AssocFn) {
            let vis = tcx.visibility(did);
            fields.push(("public", J::Bool(vis.is_public())));
            fields.push(("derived", J::Bool(
                tcx.impl_of_assoc(did).map(|i| tcx.is_automatically_derived(i)).unwrap_or(false))));
            let sig = tcx.fn_sig(did).instantiate_identity().skip_norm_wip().skip_binder();
            fields.push(("inputs", J::Arr(sig.inputs().iter().map(|t| J::s(ty_s(*t))).collect())));
            fields.push(("output", J::s(ty_s(sig.output()))));
            if let Some(imp) = tcx.impl_of_assoc(did) {
                let self_ty = tcx.type_of(imp).instantiate_identity().skip_norm_wip();
                fields.push(("impl_self", J::s(ty_s(self_ty))));
                if tcx.impl_is_of_trait(imp) {
                    let t = tcx.impl_trait_ref(imp).instantiate_identity().skip_norm_wip();
                    fields.push(("impl_trait", J::s(path_s(tcx, t.def_id))));
                }
            }
        }
        if kind == DefKind::Closure {
            fields.push(("parent", J::s(path_s(tcx, tcx.parent(did)))));
        }
        if want_thir {
            fields.push(("thir", thirx::export(tcx, ldid)));
        }
        if want_mir && is_fn {
            fields.push(("mir", mirx::export(tcx, ldid)));
        }
        out.push(J::Obj(fields));
    }
    J::Arr(out)
}

impl rustc_driver::Callbacks for Cb {
    fn config(&mut self, config: &mut interface::Config) {
        config.opts.unstable_opts.no_steal_thir = true;
    }
    fn after_analysis<'tcx>(&mut self, _c: &interface::Compiler, tcx: TyCtxt<'tcx>) -> Compilation {
        let out_dir = match std::env::var("SCFACTS_OUT") {
            Ok(d) => d,
            Err(_) => return Compilation::Continue,
        };
        let crate_name = tcx.crate_name(rustc_hir::def_id::LOCAL_CRATE).to_string();
        // build scripts / proc-macros are not interesting
        if crate_name == "build_script_build" {
            return Compilation::Continue;
        }
        let (adts, statics, impls, consts, misc) = items(tcx);
        let feats: Vec<J> = tcx
            .sess
            .config
            .iter()
            .filter_map(|(k, v)| {
                if k.as_str() == "feature" {
                    v.map(|v| J::s(v.to_string()))
                } else {
                    None
                }
            })
            .collect();
        let doc = obj! {
            "crate": J::s(crate_name.clone()),
            "features": J::Arr(feats),
            "overflow_checks": J::Bool(tcx.sess.overflow_checks()),
            "debug_assertions": J::Bool(tcx.sess.opts.debug_assertions),
            "rustc": J::s(rustc_interface::util::rustc_version_str().unwrap_or("?").to_string()),
            "adts": adts,
            "statics": statics,
            "impls": impls,
            "consts": consts,
            "misc_items": misc,
            "exports": exports(tcx),
            "fns": bodies(tcx),
        };
        let mut s = String::new();
        doc.write(&mut s);
        let path = format!("{}/{}.facts.json", out_dir, crate_name);
        std::fs::write(&path, s).expect("scfacts: cannot write fact file");
        Compilation::Continue
    }
}

fn main() {
    let mut args: Vec<String> = std::env::args().collect();
    // RUSTC_WRAPPER / RUSTC_WORKSPACE_WRAPPER convention: argv[1] is the real rustc
    if args.len() > 1 && (args[1].ends_with("rustc") || args[1].contains("/rustc")) {
        args.remove(1);
    }
    rustc_driver::run_compiler(&args, &mut Cb);
}
