// THIR export: typed, fully resolved expression trees.
use crate::json::J;
use crate::{fn_j, obj, path_s, span_j, ty_s};
use rustc_hir::def_id::{DefId, LocalDefId};
use rustc_middle::thir::{self, ExprId, ExprKind, Pat, PatKind, StmtKind, Thir};
use rustc_middle::ty::{self, TyCtxt};

struct X<'a, 'tcx> {
    tcx: TyCtxt<'tcx>,
    thir: &'a Thir<'tcx>,
    owner: DefId,
}

pub fn export(tcx: TyCtxt<'_>, ldid: LocalDefId) -> J {
    let Ok((steal, root)) = tcx.thir_body(ldid) else {
        return J::Null;
    };
    let thir = steal.borrow();
    let x = X { tcx, thir: &thir, owner: ldid.to_def_id() };
    let params: Vec<J> = thir
        .params
        .iter()
        .map(|p| {
            obj! {
                "ty": J::s(ty_s(p.ty)),
                "pat": match &p.pat { Some(p) => x.pat(p), None => J::Null },
            }
        })
        .collect();
    obj! {"params": J::Arr(params), "body": x.expr(root)}
}

impl<'a, 'tcx> X<'a, 'tcx> {
    fn var(&self, id: thir::LocalVarId) -> (String, i128) {
        let name = self.tcx.hir_name(id.0).to_string();
        (name, id.0.local_id.as_u32() as i128)
    }

    fn lit(&self, lit: &rustc_hir::Lit, neg: bool) -> J {
        use rustc_ast::LitKind::*;
        let (k, v) = match &lit.node {
            Str(s, _) => ("str", s.to_string()),
            ByteStr(..) | CStr(..) => ("bytes", String::new()),
            Byte(b) => ("byte", b.to_string()),
            Char(c) => ("char", c.to_string()),
            Int(i, _) => ("int", i.get().to_string()),
            Float(s, _) => ("float", s.to_string()),
            Bool(b) => ("bool", b.to_string()),
            Err(_) => ("err", String::new()),
        };
        obj! {"k": J::s("lit"), "lk": J::s(k), "v": J::s(v), "neg": J::Bool(neg)}
    }

    fn constval(&self, ty: ty::Ty<'tcx>, v: ty::Value<'tcx>) -> J {
        // scalar or str constants appearing in patterns
        if let Some(s) = v.try_to_leaf() {
            let bits = s.to_bits_unchecked();
            if ty.is_char() {
                if let Some(c) = char::from_u32(bits as u32) {
                    return obj! {"k": J::s("const"), "ty": J::s(ty_s(ty)), "char": J::s(c.to_string()), "bits": J::s(bits.to_string())};
                }
            }
            return obj! {"k": J::s("const"), "ty": J::s(ty_s(ty)), "bits": J::s(bits.to_string())};
        }
        if matches!(ty.kind(), ty::Str) {
            let bytes: Option<Vec<u8>> = v
                .to_branch()
                .into_iter()
                .map(|ct| (*ct).try_to_value().and_then(|x| x.try_to_leaf()).map(|l| l.to_u8()))
                .collect();
            if let Some(b) = bytes {
                if let Ok(s) = String::from_utf8(b) {
                    return obj! {"k": J::s("const"), "ty": J::s(ty_s(ty)), "str": J::s(s)};
                }
            }
        }
        if let Some(bytes) = v.try_to_raw_bytes(self.tcx) {
            if let Ok(s) = std::str::from_utf8(bytes) {
                return obj! {"k": J::s("const"), "ty": J::s(ty_s(ty)), "str": J::s(s.to_string())};
            }
        }
        obj! {"k": J::s("const"), "ty": J::s(ty_s(ty)), "dbg": J::s(format!("{:?}", v))}
    }

    fn pat(&self, p: &Pat<'tcx>) -> J {
        let tcx = self.tcx;
        match &p.kind {
            PatKind::Missing => obj! {"k": J::s("missing")},
            PatKind::Wild => obj! {"k": J::s("wild")},
            PatKind::Binding { name, mode, var, ty, subpattern, .. } => {
                let (_, id) = self.var(*var);
                obj! {
                    "k": J::s("bind"),
                    "name": J::s(name.to_string()),
                    "id": J::Int(id),
                    "mode": J::s(format!("{:?}", mode)),
                    "ty": J::s(ty_s(*ty)),
                    "sub": match subpattern { Some(s) => self.pat(s), None => J::Null },
                }
            }
            PatKind::Variant { adt_def, variant_index, subpatterns, .. } => {
                let v = adt_def.variant(*variant_index);
                let subs: Vec<J> = subpatterns
                    .iter()
                    .map(|fp| obj! {"field": J::Int(fp.field.as_u32() as i128), "pat": self.pat(&fp.pattern)})
                    .collect();
                obj! {
                    "k": J::s("variant"),
                    "adt": J::s(path_s(tcx, adt_def.did())),
                    "variant": J::s(v.name.to_string()),
                    "idx": J::Int(variant_index.as_u32() as i128),
                    "sub": J::Arr(subs),
                }
            }
            PatKind::Leaf { subpatterns } => {
                let subs: Vec<J> = subpatterns
                    .iter()
                    .map(|fp| obj! {"field": J::Int(fp.field.as_u32() as i128), "pat": self.pat(&fp.pattern)})
                    .collect();
                obj! {"k": J::s("leaf"), "ty": J::s(ty_s(p.ty)), "sub": J::Arr(subs)}
            }
            PatKind::Deref { subpattern, .. } => obj! {"k": J::s("deref"), "sub": self.pat(subpattern)},
            PatKind::DerefPattern { subpattern, .. } => {
                obj! {"k": J::s("derefpat"), "sub": self.pat(subpattern)}
            }
            PatKind::Constant { value } => self.constval(p.ty, *value),
            PatKind::Range(r) => {
                let b = |x: &thir::PatRangeBoundary<'tcx>| match x {
                    thir::PatRangeBoundary::Finite(v) => match v.try_to_leaf() {
                        Some(s) => J::s(s.to_bits_unchecked().to_string()),
                        None => J::Null,
                    },
                    thir::PatRangeBoundary::NegInfinity => J::s("-inf"),
                    thir::PatRangeBoundary::PosInfinity => J::s("+inf"),
                };
                obj! {
                    "k": J::s("range"),
                    "ty": J::s(ty_s(r.ty)),
                    "lo": b(&r.lo),
                    "hi": b(&r.hi),
                    "end": J::s(format!("{:?}", r.end)),
                }
            }
            PatKind::Or { pats } => {
                obj! {"k": J::s("or"), "pats": J::Arr(pats.iter().map(|p| self.pat(p)).collect())}
            }
            PatKind::Guard { subpattern, condition } => {
                obj! {"k": J::s("guardpat"), "sub": self.pat(subpattern), "cond": self.expr(*condition)}
            }
            other => obj! {"k": J::s("otherpat"), "dbg": J::s(format!("{:?}", other).chars().take(200).collect::<String>())},
        }
    }

    fn block(&self, b: thir::BlockId) -> J {
        let blk = &self.thir[b];
        let mut stmts = vec![];
        for s in blk.stmts.iter() {
            match &self.thir[*s].kind {
                StmtKind::Expr { expr, .. } => {
                    stmts.push(obj! {"k": J::s("expr"), "e": self.expr(*expr)});
                }
                StmtKind::Let { pattern, initializer, else_block, span, .. } => {
                    stmts.push(obj! {
                        "k": J::s("let"),
                        "pat": self.pat(pattern),
                        "init": match initializer { Some(e) => self.expr(*e), None => J::Null },
                        "else": match else_block { Some(b) => self.block(*b), None => J::Null },
                        "sp": span_j(self.tcx, *span),
                    });
                }
            }
        }
        obj! {
            "k": J::s("block"),
            "stmts": J::Arr(stmts),
            "tail": match blk.expr { Some(e) => self.expr(e), None => J::Null },
            "unsafe": J::Bool(!matches!(blk.safety_mode, thir::BlockSafety::Safe)),
            "sp": span_j(self.tcx, blk.span),
        }
    }

    fn expr(&self, id: ExprId) -> J {
        let tcx = self.tcx;
        let e = &self.thir[id];
        // transparent wrappers
        match &e.kind {
            ExprKind::Scope { value, .. } => return self.expr(*value),
            ExprKind::Use { source } => return self.expr(*source),
            ExprKind::NeverToAny { source } => return self.expr(*source),
            ExprKind::ValueTypeAscription { source, .. } => return self.expr(*source),
            ExprKind::PlaceTypeAscription { source, .. } => return self.expr(*source),
            _ => {}
        }
        let mut f: Vec<(&'static str, J)> = vec![];
        let kind: &str;
        match &e.kind {
            ExprKind::If { cond, then, else_opt, .. } => {
                kind = "if";
                f.push(("c", self.expr(*cond)));
                f.push(("t", self.expr(*then)));
                f.push(("e", match else_opt { Some(x) => self.expr(*x), None => J::Null }));
            }
            ExprKind::Call { ty, fun, args, from_hir_call, .. } => {
                kind = "call";
                if let ty::FnDef(d, ga) = ty.kind() {
                    f.push(("fn", fn_j(tcx, self.owner, *d, ga)));
                } else {
                    f.push(("fn", J::Null));
                    f.push(("callee", self.expr(*fun)));
                    f.push(("callee_ty", J::s(ty_s(*ty))));
                }
                f.push(("args", J::Arr(args.iter().map(|a| self.expr(*a)).collect())));
                f.push(("hir_call", J::Bool(*from_hir_call)));
            }
            ExprKind::ByUse { expr, .. } => {
                kind = "byuse";
                f.push(("e", self.expr(*expr)));
            }
            ExprKind::Deref { arg } => {
                kind = "deref";
                f.push(("e", self.expr(*arg)));
            }
            ExprKind::Binary { op, lhs, rhs } => {
                kind = "binary";
                f.push(("op", J::s(format!("{:?}", op))));
                f.push(("l", self.expr(*lhs)));
                f.push(("r", self.expr(*rhs)));
            }
            ExprKind::LogicalOp { op, lhs, rhs } => {
                kind = "logical";
                f.push(("op", J::s(format!("{:?}", op))));
                f.push(("l", self.expr(*lhs)));
                f.push(("r", self.expr(*rhs)));
            }
            ExprKind::Unary { op, arg } => {
                kind = "unary";
                f.push(("op", J::s(format!("{:?}", op))));
                f.push(("e", self.expr(*arg)));
            }
            ExprKind::Cast { source } => {
                kind = "cast";
                f.push(("e", self.expr(*source)));
                f.push(("from", J::s(ty_s(self.thir[*source].ty))));
            }
            ExprKind::PointerCoercion { cast, source, .. } => {
                kind = "coerce";
                f.push(("cast", J::s(format!("{:?}", cast))));
                f.push(("e", self.expr(*source)));
            }
            ExprKind::Loop { body } => {
                kind = "loop";
                f.push(("body", self.expr(*body)));
            }
            ExprKind::Let { expr, pat } => {
                kind = "letx";
                f.push(("e", self.expr(*expr)));
                f.push(("pat", self.pat(pat)));
            }
            ExprKind::Match { scrutinee, arms, match_source } => {
                kind = "match";
                f.push(("src", J::s(format!("{:?}", match_source))));
                f.push(("scrut", self.expr(*scrutinee)));
                let arms: Vec<J> = arms
                    .iter()
                    .map(|a| {
                        let arm = &self.thir[*a];
                        obj! {
                            "pat": self.pat(&arm.pattern),
                            "guard": match arm.guard { Some(g) => self.expr(g), None => J::Null },
                            "body": self.expr(arm.body),
                            "sp": span_j(tcx, arm.span),
                        }
                    })
                    .collect();
                f.push(("arms", J::Arr(arms)));
            }
            ExprKind::Block { block } => {
                return self.block(*block);
            }
            ExprKind::Assign { lhs, rhs } => {
                kind = "assign";
                f.push(("l", self.expr(*lhs)));
                f.push(("r", self.expr(*rhs)));
            }
            ExprKind::AssignOp { op, lhs, rhs } => {
                kind = "assignop";
                f.push(("op", J::s(format!("{:?}", op))));
                f.push(("l", self.expr(*lhs)));
                f.push(("r", self.expr(*rhs)));
            }
            ExprKind::Field { lhs, variant_index, name } => {
                kind = "field";
                let lt = self.thir[*lhs].ty;
                let mut fname = name.as_u32().to_string();
                if let ty::Adt(adt, _) = lt.kind() {
                    let v = adt.variant(*variant_index);
                    if let Some(fd) = v.fields.get(*name) {
                        fname = fd.name.to_string();
                    }
                }
                f.push(("e", self.expr(*lhs)));
                f.push(("name", J::s(fname)));
                f.push(("idx", J::Int(name.as_u32() as i128)));
            }
            ExprKind::Index { lhs, index } => {
                kind = "index";
                f.push(("e", self.expr(*lhs)));
                f.push(("i", self.expr(*index)));
            }
            ExprKind::VarRef { id } => {
                kind = "var";
                let (n, i) = self.var(*id);
                f.push(("name", J::s(n)));
                f.push(("id", J::Int(i)));
            }
            ExprKind::UpvarRef { var_hir_id, .. } => {
                kind = "upvar";
                let (n, i) = self.var(*var_hir_id);
                f.push(("name", J::s(n)));
                f.push(("id", J::Int(i)));
            }
            ExprKind::Borrow { borrow_kind, arg } => {
                kind = "borrow";
                f.push(("bk", J::s(format!("{:?}", borrow_kind))));
                f.push(("e", self.expr(*arg)));
            }
            ExprKind::RawBorrow { arg, .. } => {
                kind = "rawborrow";
                f.push(("e", self.expr(*arg)));
            }
            ExprKind::Break { value, .. } => {
                kind = "break";
                f.push(("e", match value { Some(v) => self.expr(*v), None => J::Null }));
            }
            ExprKind::Continue { .. } => {
                kind = "continue";
            }
            ExprKind::Return { value } => {
                kind = "return";
                f.push(("e", match value { Some(v) => self.expr(*v), None => J::Null }));
            }
            ExprKind::ConstBlock { did, .. } => {
                kind = "constblock";
                f.push(("def", J::s(path_s(tcx, *did))));
            }
            ExprKind::Repeat { value, count } => {
                kind = "repeat";
                f.push(("e", self.expr(*value)));
                f.push(("count", J::s(format!("{}", count))));
            }
            ExprKind::Array { fields } => {
                kind = "array";
                f.push(("es", J::Arr(fields.iter().map(|a| self.expr(*a)).collect())));
            }
            ExprKind::Tuple { fields } => {
                kind = "tuple";
                f.push(("es", J::Arr(fields.iter().map(|a| self.expr(*a)).collect())));
            }
            ExprKind::Adt(adt) => {
                kind = "adt";
                let v = adt.adt_def.variant(adt.variant_index);
                f.push(("adt", J::s(path_s(tcx, adt.adt_def.did()))));
                f.push(("variant", J::s(v.name.to_string())));
                let fs: Vec<J> = adt
                    .fields
                    .iter()
                    .map(|fe| {
                        let n = v.fields.get(fe.name).map(|x| x.name.to_string()).unwrap_or_default();
                        obj! {"idx": J::Int(fe.name.as_u32() as i128), "name": J::s(n), "e": self.expr(fe.expr)}
                    })
                    .collect();
                f.push(("fields", J::Arr(fs)));
                f.push(("has_base", J::Bool(!matches!(adt.base, thir::AdtExprBase::None))));
            }
            ExprKind::Closure(c) => {
                kind = "closure";
                f.push(("def", J::s(path_s(tcx, c.closure_id.to_def_id()))));
                f.push(("upvars", J::Arr(c.upvars.iter().map(|a| self.expr(*a)).collect())));
            }
            ExprKind::Literal { lit, neg } => {
                let mut j = self.lit(lit, *neg);
                if let J::Obj(v) = &mut j {
                    v.push(("ty", J::s(ty_s(e.ty))));
                    v.push(("sp", span_j(tcx, e.span)));
                }
                return j;
            }
            ExprKind::NonHirLiteral { lit, .. } => {
                kind = "scalar";
                f.push(("bits", J::s(lit.to_bits_unchecked().to_string())));
            }
            ExprKind::ZstLiteral { .. } => {
                if let ty::FnDef(d, ga) = e.ty.kind() {
                    kind = "fnref";
                    f.push(("fn", fn_j(tcx, self.owner, *d, ga)));
                } else {
                    kind = "zst";
                }
            }
            ExprKind::NamedConst { def_id, args, .. } => {
                kind = "namedconst";
                f.push(("def", J::s(path_s(tcx, *def_id))));
                // try to evaluate scalar constants (PI, E, i64::MAX, ...)
                let env = ty::TypingEnv::post_analysis(tcx, self.owner);
                let uv = rustc_middle::mir::UnevaluatedConst::new(*def_id, args);
                if let Ok(val) = tcx.const_eval_resolve(env, uv, e.span) {
                    if let Some(s) = val.try_to_scalar_int() {
                        f.push(("bits", J::s(s.to_bits_unchecked().to_string())));
                    }
                }
            }
            ExprKind::StaticRef { def_id, .. } => {
                kind = "staticref";
                f.push(("def", J::s(path_s(tcx, *def_id))));
            }
            ExprKind::ThreadLocalRef(d) => {
                kind = "tlsref";
                f.push(("def", J::s(path_s(tcx, *d))));
            }
            ExprKind::InlineAsm(_) => {
                kind = "asm";
            }
            other => {
                kind = "other";
                f.push(("dbg", J::s(format!("{:?}", other).chars().take(120).collect::<String>())));
            }
        }
        let mut all: Vec<(&'static str, J)> = vec![("k", J::s(kind)), ("ty", J::s(ty_s(e.ty)))];
        all.extend(f);
        all.push(("sp", span_j(tcx, e.span)));
        J::Obj(all)
    }
}
