// MIR export (opt-level 0 `optimized_mir`): blocks, statements, terminators with
// Instance-resolved callees, assert kinds, local types.
use crate::json::J;
use crate::{fn_j, obj, path_s, span_j, ty_s};
use rustc_hir::def_id::{DefId, LocalDefId};
use rustc_middle::mir::{
    self, AggregateKind, Body, Operand, Place, ProjectionElem, Rvalue, StatementKind, TerminatorKind,
};
use rustc_middle::ty::{self, TyCtxt};

struct M<'a, 'tcx> {
    tcx: TyCtxt<'tcx>,
    body: &'a Body<'tcx>,
    owner: DefId,
}

pub fn export(tcx: TyCtxt<'_>, ldid: LocalDefId) -> J {
    let did = ldid.to_def_id();
    if !tcx.is_mir_available(did) {
        return J::Null;
    }
    let body = tcx.optimized_mir(did);
    let m = M { tcx, body, owner: did };
    let env = ty::TypingEnv::post_analysis(tcx, did);
    let mut names: Vec<Option<String>> = vec![None; body.local_decls.len()];
    for vdi in body.var_debug_info.iter() {
        if let mir::VarDebugInfoContents::Place(p) = &vdi.value {
            if p.projection.is_empty() {
                names[p.local.as_usize()] = Some(vdi.name.to_string());
            }
        }
    }
    let locals: Vec<J> = body
        .local_decls
        .iter_enumerated()
        .map(|(l, d)| {
            obj! {
                "ty": J::s(ty_s(d.ty)),
                "name": match &names[l.as_usize()] { Some(n) => J::s(n.clone()), None => J::Null },
                "freeze": J::Bool(d.ty.is_freeze(tcx, env)),
            }
        })
        .collect();
    let blocks: Vec<J> = body
        .basic_blocks
        .iter_enumerated()
        .map(|(_bb, data)| {
            let stmts: Vec<J> = data.statements.iter().filter_map(|s| m.stmt(s)).collect();
            obj! {
                "stmts": J::Arr(stmts),
                "term": m.term(data.terminator()),
                "cleanup": J::Bool(data.is_cleanup),
            }
        })
        .collect();
    obj! {
        "arg_count": J::Int(body.arg_count as i128),
        "locals": J::Arr(locals),
        "blocks": J::Arr(blocks),
    }
}

impl<'a, 'tcx> M<'a, 'tcx> {
    fn place(&self, p: &Place<'tcx>) -> J {
        let mut proj = vec![];
        let mut ty = mir::PlaceTy::from_ty(self.body.local_decls[p.local].ty);
        for elem in p.projection.iter() {
            let j = match elem {
                ProjectionElem::Deref => obj! {"k": J::s("deref")},
                ProjectionElem::Field(f, fty) => {
                    let mut name = f.as_u32().to_string();
                    if let ty::Adt(adt, _) = ty.ty.kind() {
                        let vi = ty.variant_index.unwrap_or(rustc_abi::FIRST_VARIANT);
                        if let Some(fd) = adt.variant(vi).fields.get(f) {
                            name = fd.name.to_string();
                        }
                    }
                    obj! {"k": J::s("field"), "idx": J::Int(f.as_u32() as i128), "name": J::s(name), "ty": J::s(ty_s(fty))}
                }
                ProjectionElem::Downcast(name, vi) => obj! {
                    "k": J::s("downcast"),
                    "variant": match name { Some(n) => J::s(n.to_string()), None => J::Null },
                    "idx": J::Int(vi.as_u32() as i128),
                },
                ProjectionElem::Index(l) => obj! {"k": J::s("index"), "local": J::Int(l.as_u32() as i128)},
                ProjectionElem::ConstantIndex { offset, from_end, .. } => {
                    obj! {"k": J::s("constindex"), "offset": J::Int(offset as i128), "from_end": J::Bool(from_end)}
                }
                ProjectionElem::Subslice { .. } => obj! {"k": J::s("subslice")},
                ProjectionElem::OpaqueCast(_) => obj! {"k": J::s("opaquecast")},
                ProjectionElem::UnwrapUnsafeBinder(_) => obj! {"k": J::s("unwrapbinder")},
            };
            proj.push(j);
            ty = ty.projection_ty(self.tcx, elem);
        }
        obj! {
            "local": J::Int(p.local.as_u32() as i128),
            "proj": J::Arr(proj),
            "ty": J::s(ty_s(ty.ty)),
        }
    }

    fn operand(&self, o: &Operand<'tcx>) -> J {
        match o {
            Operand::Copy(p) => obj! {"k": J::s("copy"), "p": self.place(p)},
            Operand::Move(p) => obj! {"k": J::s("move"), "p": self.place(p)},
            Operand::Constant(c) => {
                let ty = c.const_.ty();
                let mut f: Vec<(&'static str, J)> = vec![("k", J::s("const")), ("ty", J::s(ty_s(ty)))];
                if let ty::FnDef(d, ga) = ty.kind() {
                    f.push(("fn", fn_j(self.tcx, self.owner, *d, ga)));
                } else {
                    let env = ty::TypingEnv::post_analysis(self.tcx, self.owner);
                    if let Some(s) = c.const_.try_eval_scalar_int(self.tcx, env) {
                        f.push(("bits", J::s(s.to_bits_unchecked().to_string())));
                        f.push(("size", J::Int(s.size().bytes() as i128)));
                    } else {
                        f.push(("dbg", J::s(format!("{}", c.const_).chars().take(160).collect::<String>())));
                    }
                    if let mir::Const::Unevaluated(uv, _) = c.const_ {
                        f.push(("def", J::s(path_s(self.tcx, uv.def))));
                    }
                }
                J::Obj(f)
            }
            #[allow(unreachable_patterns)]
            _ => obj! {"k": J::s("otherop")},
        }
    }

    fn rvalue(&self, rv: &Rvalue<'tcx>) -> J {
        let tcx = self.tcx;
        match rv {
            Rvalue::Use(o, ..) => obj! {"k": J::s("use"), "a": self.operand(o)},
            Rvalue::Repeat(o, _) => obj! {"k": J::s("repeat"), "a": self.operand(o)},
            Rvalue::Ref(_, bk, p) => obj! {"k": J::s("ref"), "bk": J::s(format!("{:?}", bk)), "p": self.place(p)},
            Rvalue::ThreadLocalRef(d) => obj! {"k": J::s("tlsref"), "def": J::s(path_s(tcx, *d))},
            Rvalue::RawPtr(_, p) => obj! {"k": J::s("rawptr"), "p": self.place(p)},
            Rvalue::Cast(ck, o, t) => obj! {
                "k": J::s("cast"),
                "ck": J::s(format!("{:?}", ck)),
                "a": self.operand(o),
                "from": J::s(ty_s(o.ty(self.body, tcx))),
                "to": J::s(ty_s(*t)),
            },
            Rvalue::BinaryOp(op, ab) => obj! {
                "k": J::s("binop"),
                "op": J::s(format!("{:?}", op)),
                "a": self.operand(&ab.0),
                "b": self.operand(&ab.1),
                "aty": J::s(ty_s(ab.0.ty(self.body, tcx))),
                "bty": J::s(ty_s(ab.1.ty(self.body, tcx))),
            },
            Rvalue::UnaryOp(op, o) => obj! {
                "k": J::s("unop"),
                "op": J::s(format!("{:?}", op)),
                "a": self.operand(o),
                "aty": J::s(ty_s(o.ty(self.body, tcx))),
            },
            Rvalue::Discriminant(p) => obj! {"k": J::s("discr"), "p": self.place(p)},
            Rvalue::Aggregate(kind, ops) => {
                let (ak, extra) = match &**kind {
                    AggregateKind::Array(_) => ("array", J::Null),
                    AggregateKind::Tuple => ("tuple", J::Null),
                    AggregateKind::Adt(d, vi, ..) => {
                        let adt = tcx.adt_def(*d);
                        (
                            "adt",
                            obj! {"adt": J::s(path_s(tcx, *d)), "variant": J::s(adt.variant(*vi).name.to_string())},
                        )
                    }
                    AggregateKind::Closure(d, _) => ("closure", obj! {"def": J::s(path_s(tcx, *d))}),
                    _ => ("other", J::Null),
                };
                obj! {
                    "k": J::s("aggregate"),
                    "ak": J::s(ak),
                    "of": extra,
                    "ops": J::Arr(ops.iter().map(|o| self.operand(o)).collect()),
                }
            }
            Rvalue::CopyForDeref(p) => obj! {"k": J::s("copyforderef"), "p": self.place(p)},
            #[allow(unreachable_patterns)]
            other => obj! {"k": J::s("otherrv"), "dbg": J::s(format!("{:?}", other).chars().take(120).collect::<String>())},
        }
    }

    fn stmt(&self, s: &mir::Statement<'tcx>) -> Option<J> {
        match &s.kind {
            StatementKind::Assign(b) => {
                let (p, rv) = &**b;
                Some(obj! {
                    "k": J::s("assign"),
                    "lhs": self.place(p),
                    "rv": self.rvalue(rv),
                    "sp": span_j(self.tcx, s.source_info.span),
                })
            }
            StatementKind::SetDiscriminant { place, variant_index } => Some(obj! {
                "k": J::s("setdiscr"),
                "lhs": self.place(place),
                "idx": J::Int(variant_index.as_u32() as i128),
            }),
            StatementKind::Intrinsic(i) => Some(obj! {
                "k": J::s("intrinsic"),
                "dbg": J::s(format!("{:?}", i).chars().take(100).collect::<String>()),
            }),
            _ => None,
        }
    }

    fn term(&self, t: &mir::Terminator<'tcx>) -> J {
        let tcx = self.tcx;
        let bb = |b: mir::BasicBlock| J::Int(b.as_u32() as i128);
        let unwind = |u: &mir::UnwindAction| match u {
            mir::UnwindAction::Cleanup(b) => bb(*b),
            _ => J::Null,
        };
        let mut f: Vec<(&'static str, J)> = vec![];
        let kind = match &t.kind {
            TerminatorKind::Goto { target } => {
                f.push(("target", bb(*target)));
                "goto"
            }
            TerminatorKind::SwitchInt { discr, targets } => {
                f.push(("discr", self.operand(discr)));
                f.push(("discr_ty", J::s(ty_s(discr.ty(self.body, tcx)))));
                let ts: Vec<J> = targets
                    .iter()
                    .map(|(v, b)| J::Arr(vec![J::s(v.to_string()), bb(b)]))
                    .collect();
                f.push(("targets", J::Arr(ts)));
                f.push(("otherwise", bb(targets.otherwise())));
                "switch"
            }
            TerminatorKind::UnwindResume => "resume",
            TerminatorKind::UnwindTerminate(_) => "terminate",
            TerminatorKind::Return => "return",
            TerminatorKind::Unreachable => "unreachable",
            TerminatorKind::Drop { place, target, unwind: u, .. } => {
                f.push(("p", self.place(place)));
                f.push(("target", bb(*target)));
                f.push(("unwind", unwind(u)));
                "drop"
            }
            TerminatorKind::Call { func, args, destination, target, unwind: u, fn_span, .. } => {
                f.push(("func", self.operand(func)));
                f.push(("args", J::Arr(args.iter().map(|a| self.operand(&a.node)).collect())));
                f.push(("dest", self.place(destination)));
                f.push(("target", match target { Some(b) => bb(*b), None => J::Null }));
                f.push(("unwind", unwind(u)));
                f.push(("fn_sp", span_j(tcx, *fn_span)));
                "call"
            }
            TerminatorKind::TailCall { func, args, .. } => {
                f.push(("func", self.operand(func)));
                f.push(("args", J::Arr(args.iter().map(|a| self.operand(&a.node)).collect())));
                "tailcall"
            }
            TerminatorKind::Assert { cond, expected, msg, target, unwind: u } => {
                f.push(("cond", self.operand(cond)));
                f.push(("expected", J::Bool(*expected)));
                let (mk, ops): (String, Vec<J>) = match &**msg {
                    mir::AssertKind::BoundsCheck { len, index } => {
                        ("BoundsCheck".into(), vec![self.operand(len), self.operand(index)])
                    }
                    mir::AssertKind::Overflow(op, a, b) => {
                        (format!("Overflow({:?})", op), vec![self.operand(a), self.operand(b)])
                    }
                    mir::AssertKind::OverflowNeg(a) => ("OverflowNeg".into(), vec![self.operand(a)]),
                    mir::AssertKind::DivisionByZero(a) => ("DivisionByZero".into(), vec![self.operand(a)]),
                    mir::AssertKind::RemainderByZero(a) => ("RemainderByZero".into(), vec![self.operand(a)]),
                    other => (format!("{:?}", other).chars().take(60).collect(), vec![]),
                };
                f.push(("msg", J::s(mk)));
                f.push(("ops", J::Arr(ops)));
                f.push(("target", bb(*target)));
                f.push(("unwind", unwind(u)));
                "assert"
            }
            TerminatorKind::FalseEdge { real_target, .. } => {
                f.push(("target", bb(*real_target)));
                "goto"
            }
            TerminatorKind::FalseUnwind { real_target, .. } => {
                f.push(("target", bb(*real_target)));
                "goto"
            }
            TerminatorKind::InlineAsm { .. } => "asm",
            _ => "otherterm",
        };
        let mut all: Vec<(&'static str, J)> = vec![("k", J::s(kind))];
        all.extend(f);
        all.push(("sp", span_j(tcx, t.source_info.span)));
        J::Obj(all)
    }
}
