#!/usr/bin/env python3
"""seed_recheck.py <seed-id>|all [checks...]: apply /verif/seeded/<id>/patch.diff to a scratch copy of /repo and run checks."""
import json, os, shutil, subprocess, sys, tempfile
from concurrent.futures import ThreadPoolExecutor
VERIF = os.path.dirname(os.path.dirname(os.path.abspath(__file__)))
ALL = ["C%02d" % i for i in range(1, 21)]


def one(seed, checks):
    d = tempfile.mkdtemp(prefix="seedre-")
    try:
        for x in ("src", "Cargo.toml", "Cargo.lock", "README.md", "CHANGELOG.md"):
            s = os.path.join("/repo", x)
            shutil.copytree(s, os.path.join(d, x)) if os.path.isdir(s) else shutil.copy(s, os.path.join(d, x))
        p = subprocess.run(["patch", "-p1", "--no-backup-if-mismatch", "-i", os.path.join(VERIF, "seeded", seed, "patch.diff")], cwd=d, stdout=subprocess.PIPE, stderr=subprocess.STDOUT, text=True)
        if p.returncode != 0:
            return seed, {"patch": "DOES NOT APPLY"}
        out = {}
        env = dict(os.environ, SC_REPO=d, SC_NO_STACK="1")
        for c in checks:
            p = subprocess.run([os.path.join(VERIF, "check"), c], cwd=VERIF, env=env, stdout=subprocess.PIPE, stderr=subprocess.STDOUT, text=True)
            keys = [l.strip().split(" ", 1)[1] for l in p.stdout.splitlines() if l.strip().startswith("violation ")]
            if p.returncode != 0:
                out[c] = keys[:4] or ["(broken)"]
        return seed, out
    finally:
        shutil.rmtree(d, ignore_errors=True)


def main():
    seed = sys.argv[1]
    checks = sys.argv[2:] or None
    seeds = sorted(d for d in os.listdir(os.path.join(VERIF, "seeded")) if os.path.isdir(os.path.join(VERIF, "seeded", d))) if seed == "all" else [seed]
    jobs = [(s, checks or ALL) for s in seeds]
    with ThreadPoolExecutor(max_workers=int(os.environ.get("SEED_RECHECK_JOBS", "5"))) as ex:
        for s, out in ex.map(lambda j: one(*j), jobs):
            own = s[:3]
            print("%-6s %s own-check:%s  %s" % (s, "DETECTED" if out else "MISSED  ", "yes" if own in out else "NO ", json.dumps(out, ensure_ascii=False)[:300]))
            if not checks and "patch" not in out:
                mp = os.path.join(VERIF, "seeded", s, "meta.json")
                meta = json.load(open(mp))
                meta["detected_by"] = out
                meta["detected_by_own_property_check"] = own in out
                json.dump(meta, open(mp, "w"), indent=1, ensure_ascii=False)
    if seed == "all" and not checks:
        res = {}
    return 0


if __name__ == "__main__":
    sys.exit(main())
