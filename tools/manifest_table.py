NOT_YET = {}
chk("C04", "proof",
    "All five parsers are instances of one precedence-climbing schema; the check extracts the schema's parameter tables (category order, token->category, rhs level and node shape per operator, prefix/postfix/bracket arms, climb loop with strict <) from the typed THIR of the current tree and proves they equal the reference tables. Grouping of every expression follows from the tables by the textbook argument. Premises re-established here: eval is a structural recursion over that tree (no arm looks inside a child; children are used only as eval(child)), the parser sees exactly the tokenizer's token stream, the public function is the plain strip->parse->eval chain.",
    "trusted: rustc's derived PartialOrd; the precedence-climbing schema argument; the value of the tree is the business of C05-C11/C20",
    "custom rustc_private THIR extraction + table comparison against a reference precedence table", "DESIGN.md 5/C04")
chk("C16", "proof",
    "Effect census over the resolved program: no mutable/interior-mutable/thread-local static, no interior mutability in any local of a function reachable from the entry points, no unsafe, no ambient-state callee (env, fs, io, time, thread, atomics, hash randomness, addresses), owned-in/owned-out entry points; thorough tier repeats it in all 31 feature configurations and censuses the statics of the dependency crates. With these facts Rust's aliasing rules give purity for every history and schedule.",
    "trusted: Rust type system (safe code), determinism of std/libm functions, dependency bodies (only their statics are censused)",
    "effect / ownership census over items, MIR locals and resolved callees (custom rustc driver)", "DESIGN.md 5/C16")
chk("C03", "proof",
    "Ok implies the whole stripped input was one expression: proved from (a) the Eof gate in each parse(), (b) error discipline (every Result of a parser call is ?-propagated or returned, tokenizer None becomes Err), (c) the argument-list/arity/bracket tables equal the reference grammar for every documented function, (d) the vocabulary equals the availability matrix in both directions, obtained by interpreting the extracted lexer decision model on every surface symbol and on foreign probes.",
    "trusted: recursive-descent schema argument; the converse (well-formed => Ok) is shown per production only",
    "THIR table extraction + abstract interpretation of the extracted lexer model + structural error-discipline rule", "DESIGN.md 5/C03")
chk("C12", "proof",
    "Implicit multiplication is a purely syntactic property of three tables: trigger set of implicit_multiply (checked in both directions), level at which the right factor is parsed, node shape, and the exact set of hook call sites/callers. All are extracted from THIR and compared with the reference. Premise: token-stream identity (get_next_token is exactly current := tokenizer.next()).",
    "trusted: precedence-climbing schema (C04); literal-followed-by-literal is left unconstrained (statement neither grants nor forbids it)",
    "THIR table extraction, call-site census and call-graph caller rule", "DESIGN.md 5/C12")
chk("C13", "proof",
    "Whitespace: dataflow rule that the parser sees only split_whitespace().collect() of the input and the original has no other use. Aliases: every synonym class maps to one token with the whole name consumed (lexer model interpreted on each keyword, so arm order and shadowing are covered). Notations: bracket/function, mod/%, pow/^, superscript/^N, prefix +, redundant brackets build identical nodes (relational checks between extracted table entries).",
    "trusted: std split_whitespace/collect semantics (exactly the White_Space code points)",
    "THIR dataflow rule + relational comparison of extracted parser/lexer table entries", "DESIGN.md 5/C13")
chk("C14", "proof",
    "Three-hop identity flow of the placeholder (entry point -> Parser::new -> field -> leaf built by the `@` arm) through identity steps only, the leaf arm of eval is the identity, the field is never written after construction, `@` is a primary with the loosest category. Bit-identity for NaN/-0/inf, variant and scale follow from identity flow. The stored placeholder is read exactly once (by the `@` arm) and only the tokenizer produces the `@` token.",
    "trusted: moves/copies/Clone and Option::unwrap_or* on Some(v) are identities",
    "provenance (identity-flow) rule over THIR + field-write census", "DESIGN.md 5/C14")
chk("C20", "proof",
    "Compositionality by structural induction; premises decided by a typed flow rule over the evaluator and all its helpers and closures: a Node-typed value (through &/Box/Arc) is only moved, borrowed, cloned, bound or handed to the tree walk or a crate-local helper, never compared, formatted, destructured outside the walk's flat top-level arms or passed elsewhere; collections of Nodes never reach ==/contains/sort/Debug; eval builds no tree, round brackets are the identity wrapper, previous_token is never read, token dispatch is unguarded. Determinism is C16. The parser is parametric in the sub-trees it combines (no parser function matches on or compares a Node).",
    "trusted: the induction argument in DESIGN.md; determinism from C16",
    "typed flow (provenance) rule over every Node-typed expression and pattern in the THIR of the evaluator side + read census", "DESIGN.md 5/C20")
chk("C01", "proof",
    "Sound over-approximation: every MIR panic edge (Assert terminators: overflow, division/remainder by zero, bounds; calls classified may-panic: unwrap/expect/index/panicking Decimal operators and maths/integer pow-abs/...) in every function reachable from the five entry points is enumerated in both overflow-check configurations; an edge is discharged only by a constant condition or by a recognised THIR schema whose premises are re-established on every run (static arity, non-empty aggregate, seeded fold, total-order comparator, guarded division, bounded accumulator/counter, literal call sites). Sort comparators must be total. Stack: frame sizes from -Zemit-stack-sizes x recursion-depth bound from C02 fit the 8 MiB main stack (dev and release); thorough tier repeats the census in all 31 feature subsets x 2.",
    "trusted: callee classification table (std, rust_decimal 1.43, num-complex 0.4.6), safe-Rust UB checks, allocation failure out of scope; known finding: dev-profile bound exceeds a 2 MiB thread stack",
    "panic-edge census over MIR + call-graph reachability + schema-based discharge on typed THIR; static stack bound from emitted frame sizes", "DESIGN.md 5/C01")
chk("C02", "proof",
    "Every loop construct of every reachable function is classified L1 input-consuming / L2 token-consuming (must-consume fixpoint over the parser) / L3 constant-bounded with an extracted upper-bound provenance (literal, min/clamp, dominating guard, guarded match, literal call sites) / L4 Euclid form, and cross-checked against the natural loops of the MIR; parser recursion: the graph of calls made before any token is consumed is acyclic; eval recursion: typed rule (a Node is only passed on, never built or inspected; the walk uses its own argument only as the scrutinee of its top-level match) so every recursive call is on a strict sub-term; linear use: along every path each child is evaluated at most once and an argument list yields its elements at most once; only those SCCs exist; the budget inequality c1+2+K_max <= 256 is computed from the extracted constants.",
    "trusted: finiteness of std iterators, Lame's bound, derived Clone/Drop recursion (not a counted step), loops inside dependencies",
    "loop classification with bound provenance over typed THIR, MIR natural-loop cross-check, call-graph SCC and progress-edge analysis, typed flow rules for recursion and linear use of children", "DESIGN.md 5/C02")
chk("C05", "proof",
    "Structural induction over the tree; the premise is decided per node kind: chain surface -> token -> node -> eval arm equals Ok(op(children)) with the IEEE/libm operation of that meaning (operand order included), pi/e by bit pattern, and no arithmetic arm contains an Err constructor or a finiteness test.",
    "trusted: rustc lowering of f64 operators to IEEE operations, std f64 methods, correct rounding of str::parse::<f64> (C19)",
    "THIR chain composition + reference term table", "DESIGN.md 5/C05")
chk("C06", "proof",
    "(a) typed MIR operation census of eval_i64::ast in both overflow configurations: no raw + - * / % << >> neg, no narrowing cast of an expression value, no wrapping/saturating/panicking integer method (wrapping_rem only under a non-zero-divisor guard); (b) chain table: every operator arm is the checked operation of its meaning with None -> Err, exponent/shift counts through u32::try_from, n! the checked product; (c) literals through str::parse::<i64> with failure -> Err. Exactness then follows by structural induction and is profile independent.",
    "trusted: semantics of i64::checked_*, wrapping_rem, u32::try_from",
    "typed-operation census over MIR (two configurations) + THIR chain composition against a checked-operation table", "DESIGN.md 5/C06")
chk("C07", "other",
    "Necessary structural conditions in this repository: + - * / % and unary minus are routed to rust_decimal's checked exact operations with operands in order and None -> Err; no rounding/rescaling call and no binary floating point (type census of every local, cast and callee in tokenizer, parser and the arithmetic arms); literals reach Decimal::from_str as the exact scanned text. Exactness of rust_decimal's 96-bit arithmetic is trusted, not decided.",
    "declined: exactness / 1e-27 division tolerance of rust_decimal itself",
    "THIR chain composition + float-type census over MIR locals and callees", "DESIGN.md 5/C07")
chk("C08", "other",
    "Necessary structural conditions: `i` -> Complex(0,1), `<num>i` -> Complex(0,x) consuming the i, `pi` decided before `i`; every operator and function of the complex vocabulary is routed to the num_complex method of its meaning with operands in written order; constants are the real doubles. The numerical tolerances (1e-12/1e-9, branch cuts) are trusted to num_complex/libm.",
    "declined: all numerical tolerances of the statement",
    "abstract interpretation of the extracted lexer model + THIR chain composition against a routing table", "DESIGN.md 5/C08")
chk("C09", "proof",
    "Each operator arm of eval_number is partially evaluated for every (Integer|Float) operand combination and the residual decision tree is compared with the reference (checked integer operation -> Integer, None/inexact/zero divisor -> Float of the double values; any Float operand -> the IEEE operation on the double values; floor/ceil/round cast the rounded value). Cast-guard rule: every f64->i64 cast that becomes an Integer is dominated by -2^63 <= x < 2^63 on the same x, with guard constants folded exactly.",
    "trusted: i64::checked_*, `as` conversions, IEEE operators",
    "partial evaluation of typed THIR arms (case analysis) + guard dominance rule with constant folding", "DESIGN.md 5/C09")
chk("C10", "proof",
    "For every (evaluator, documented name/alias/constant/postfix operator): the chain name -> token -> node -> operation, composed from the extracted lexer/parser/eval tables, equals the reference meaning (library-backed rows and exact functions; argument order for root/log/atan2/pow/mod); source constants pi/180 and 180/pi are checked numerically; the three gamma copies and the Lambert-W copies must agree (sibling rule).",
    "declined: accuracy of Lanczos gamma, convergence of Lambert W as such, value of ilog, 'within 1' for eval_i64 real-valued functions (only routing / sibling agreement); the structural necessary condition of Lambert W's convergence (exit test or x-dependent start) is an obligation",
    "THIR chain composition over the whole vocabulary + sibling cross-check", "DESIGN.md 5/C10")
chk("C11", "proof",
    "Every aggregate arm is summarised as a fold (seed, step, finish) and compared with the admissible schemas: min/max with the identity seed or first-element seed, avg = checked sum / len, med = collect, sort with an ascending total comparator, middle / mean of the two middle elements; gcd helper has the Euclid transformer (a,b) := (b, a mod b) and finish |a|; arguments are evaluated with `?`; parser side: empty list -> Err, avg() -> 0. Order independence follows from commutativity/associativity + sort.",
    "trusted: min/max algebra of the value types, sort correctness; NaN/inf arguments are outside the property",
    "fold-schema matching over typed THIR terms", "DESIGN.md 5/C11")
chk("C15", "proof",
    "Sibling cross-check of extracted tables: (1) type-erased parser arms for every shared symbol/function and the parser skeleton are identical across evaluators; (2) number<->i64: the Integer branch uses the same checked operation with the same operand order, Integer-wrapped; (3) number<->f64: every branch with a Float operand has, after erasing the Number wrappers, the same term as eval_f64's arm; (4) complex/decimal<->f64: same-named routing. (5) min/max are the minimum/maximum fold of the value type in eval_i64, eval_f64 and eval_number; token->category tables agree.",
    "declined: 1e-9 numerical agreement of eval_complex/eval_decimal with eval_f64",
    "sibling comparison of extracted tables + partial evaluation", "DESIGN.md 5/C15")
chk("C17", "proof",
    "Exhaustive over configurations: all 31 non-empty feature subsets and the empty one are type-checked under the extractor; the export set equals the selection; the typed THIR of every compiled evaluator module and of the shared utils is hash-equal to the all-features build; the precedence enum restricted to surviving variants keeps the order; cfg occurrences are confined to the crate root and the enum; Cargo feature table is as documented. Thorough: also without overflow checks and with the stable toolchain. Isolation premise: no crate state and plain entry chains, so an evaluator cannot depend on a sibling present in some subsets only; no numeric cast of a cfg-dependent enum.",
    "trusted: compiler determinism (equal typed program => equal behaviour)",
    "exhaustive configuration enumeration with per-module fact-base equality + lexical cfg census", "DESIGN.md 5/C17")
chk("C18", "proof",
    "From<i64> is Integer(v). From<f64> is summarised to a decision tree: an integrality test from an enumerated exact set (false for NaN and +-inf), range guard with constants folded exactly to [-2^63, 2^63) (strict upper bound), Integer(t(v) as i64) inside, Float(v) carrying the parameter itself otherwise. Case analysis over the tree covers all 2^64 doubles. Door census: every other f64->Integer cast in eval_number (helpers, evaluator arms, parser, tokenizer) obeys the same guard rule; else-branch (early-exit) guards need a NaN test.",
    "trusted: IEEE floor/trunc/compare semantics, exactness of `as i64` on integral doubles in range",
    "decision-tree summary of typed THIR + guard dominance with constant folding + identity-flow rule", "DESIGN.md 5/C18")
chk("C19", "other",
    "Necessary structural conditions on the literal scanners of all five tokenizers: every digit starts the same scanner, the scanner continues over digits and '.' only (no sign, no exponent letter), `.DIGITS` is converted as `0.DIGITS`, a lone '.' is rejected, the exact scanned text goes to the standard converter of the evaluator's type, nothing is applied to the result, a failed conversion yields None/Err (eval_number: Float fallback; second point ends the literal). Correct rounding and the print/re-read inverse are library contracts (argued on paper in spec/roundtrip.md).",
    "declined: correct rounding of std/rust_decimal converters; print -> re-read round trip",
    "abstract interpretation of the extracted lexer model + scanner pattern analysis on typed THIR", "DESIGN.md 5/C19")
