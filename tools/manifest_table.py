NOT_YET = {}
chk("C04", "proof",
    "All five parsers are instances of one precedence-climbing schema; the check extracts the schema's parameter tables (category order, token->category, rhs level and node shape per operator, prefix/postfix/bracket arms, climb loop with strict <) from the typed THIR of the current tree and proves they equal the reference tables. Grouping of every expression follows from the tables by the textbook argument.",
    "trusted: rustc's derived PartialOrd; the precedence-climbing schema argument; the value of the tree is the business of C05-C11/C20",
    "custom rustc_private THIR extraction + table comparison against a reference precedence table", "DESIGN.md 5/C04")
chk("C16", "proof",
    "Effect census over the resolved program: no mutable/interior-mutable/thread-local static, no interior mutability in any local of a function reachable from the entry points, no unsafe, no ambient-state callee (env, fs, io, time, thread, atomics, hash randomness, addresses), owned-in/owned-out entry points; thorough tier repeats it in all 31 feature configurations and censuses the statics of the dependency crates. With these facts Rust's aliasing rules give purity for every history and schedule.",
    "trusted: Rust type system (safe code), determinism of std/libm functions, dependency bodies (only their statics are censused)",
    "effect / ownership census over items, MIR locals and resolved callees (custom rustc driver)", "DESIGN.md 5/C16")
chk("C03", "proof",
    "Ok implies the whole stripped input was one expression: proved from (a) the Eof gate in each parse(), (b) error discipline (every Result of a parser call is ?-propagated or returned, tokenizer None becomes Err), (c) the argument-list/arity/bracket tables equal the reference grammar for every documented function, (d) the vocabulary equals the availability matrix in both directions, obtained by interpreting the extracted lexer decision model on every surface symbol and on foreign probes.",
    "trusted: recursive-descent schema argument; the converse (well-formed => Ok) is shown per production only",
    "THIR table extraction + abstract interpretation of the extracted lexer model + structural error-discipline rule", "DESIGN.md 5/C03")
chk("C12", "proof",
    "Implicit multiplication is a purely syntactic property of three tables: trigger set of implicit_multiply (checked in both directions), level at which the right factor is parsed, node shape, and the exact set of hook call sites/callers. All are extracted from THIR and compared with the reference.",
    "trusted: precedence-climbing schema (C04); literal-followed-by-literal is left unconstrained (statement neither grants nor forbids it)",
    "THIR table extraction, call-site census and call-graph caller rule", "DESIGN.md 5/C12")
chk("C13", "proof",
    "Whitespace: dataflow rule that the parser sees only split_whitespace().collect() of the input and the original has no other use. Aliases: every synonym class maps to one token with the whole name consumed (lexer model interpreted on each keyword, so arm order and shadowing are covered). Notations: bracket/function, mod/%, pow/^, superscript/^N, prefix +, redundant brackets build identical nodes (relational checks between extracted table entries).",
    "trusted: std split_whitespace/collect semantics (exactly the White_Space code points)",
    "THIR dataflow rule + relational comparison of extracted parser/lexer table entries", "DESIGN.md 5/C13")
chk("C14", "proof",
    "Three-hop identity flow of the placeholder (entry point -> Parser::new -> field -> leaf built by the `@` arm) through identity steps only, the leaf arm of eval is the identity, the field is never written after construction, `@` is a primary with the loosest category. Bit-identity for NaN/-0/inf, variant and scale follow from identity flow.",
    "trusted: moves/copies/Clone and Option::unwrap_or* on Some(v) are identities",
    "provenance (identity-flow) rule over THIR + field-write census", "DESIGN.md 5/C14")
chk("C20", "proof",
    "Compositionality by structural induction; premises decided: every use of a child in every eval arm is the argument of the recursive eval call (lists: only measured/iterated, elements passed to eval), no arm pattern looks inside a child, eval builds no tree, round brackets are the identity wrapper, previous_token is never read, token dispatch is unguarded. Determinism is C16.",
    "trusted: the induction argument in DESIGN.md; determinism from C16",
    "provenance rule over every child use in the THIR of eval + read census", "DESIGN.md 5/C20")
