NOT_YET = {}
chk("C04", "proof",
    "All five parsers are instances of one precedence-climbing schema; the check extracts the schema's parameter tables (category order, token->category, rhs level and node shape per operator, prefix/postfix/bracket arms, climb loop with strict <) from the typed THIR of the current tree and proves they equal the reference tables. Grouping of every expression follows from the tables by the textbook argument.",
    "trusted: rustc's derived PartialOrd; the precedence-climbing schema argument; the value of the tree is the business of C05-C11/C20",
    "custom rustc_private THIR extraction + table comparison against a reference precedence table", "DESIGN.md 5/C04")
chk("C16", "proof",
    "Effect census over the resolved program: no mutable/interior-mutable/thread-local static, no interior mutability in any local of a function reachable from the entry points, no unsafe, no ambient-state callee (env, fs, io, time, thread, atomics, hash randomness, addresses), owned-in/owned-out entry points; thorough tier repeats it in all 31 feature configurations and censuses the statics of the dependency crates. With these facts Rust's aliasing rules give purity for every history and schedule.",
    "trusted: Rust type system (safe code), determinism of std/libm functions, dependency bodies (only their statics are censused)",
    "effect / ownership census over items, MIR locals and resolved callees (custom rustc driver)", "DESIGN.md 5/C16")
