#!/usr/bin/env python3
"""refactor_verify.py <out-dir> <id>: a behaviour-preserving refactoring produced by a sub-agent (patch.diff + notes.md):
apply it to a scratch copy of /repo, run the 531 tests, run every check against it.  Every check must stay silent;
whatever alarms is printed for triage.  Stored under /verif/refactors/<id>/ with meta.json.
refactor_verify.py --recheck <id>|all [checks...]: re-run the checks on stored refactorings."""
import json, os, shutil, subprocess, sys, tempfile
from concurrent.futures import ThreadPoolExecutor

VERIF = os.path.dirname(os.path.dirname(os.path.abspath(__file__)))
ALL = ["C%02d" % i for i in range(1, 21)]
TARGET = os.path.join(os.environ.get("TMPDIR", "/tmp"), "refactor-verify-target")


def sh(cmd, cwd, env=None, timeout=1800):
    p = subprocess.run(cmd, cwd=cwd, env=env, stdout=subprocess.PIPE, stderr=subprocess.STDOUT, text=True, timeout=timeout)
    return p.returncode, p.stdout


def copy_repo(d):
    for x in ("src", "Cargo.toml", "Cargo.lock", "README.md", "CHANGELOG.md"):
        s = os.path.join("/repo", x)
        if os.path.isdir(s):
            shutil.copytree(s, os.path.join(d, x))
        else:
            shutil.copy(s, os.path.join(d, x))


def run_checks(d, checks):
    det = {}
    cenv = dict(os.environ, SC_REPO=d, SC_NO_STACK="1")
    for pid in checks:
        rc, out = sh([os.path.join(VERIF, "check"), pid], VERIF, cenv)
        if rc != 0:
            items = []
            lines = out.splitlines()
            for i, l in enumerate(lines):
                if l.strip().startswith("violation "):
                    items.append(l.strip().split(" ", 1)[1])
                if "CHECK-BROKEN" in l:
                    items.append(l.strip())
            det[pid] = items[:8]
    return det


def verify(out_dir, rid):
    patch = os.path.join(out_dir, "patch.diff")
    d = tempfile.mkdtemp(prefix="refchk-")
    env = dict(os.environ, CARGO_TARGET_DIR=TARGET + "-" + rid, CARGO_NET_OFFLINE="true")
    rep = {"id": rid}
    try:
        copy_repo(d)
        rc, out = sh(["patch", "-p1", "--no-backup-if-mismatch", "-i", patch], d)
        rep["patch_applies"] = rc == 0
        if rc != 0:
            rep["patch_output"] = out[-400:]
            return rep
        rc, out = sh(["cargo", "test", "--offline", "--lib"], d, env)
        line = [l for l in out.splitlines() if l.startswith("test result")]
        rep["suite"] = line[0] if line else out[-300:]
        rep["suite_ok"] = rc == 0 and "531 passed" in (line[0] if line else "")
        rep["alarms"] = run_checks(d, ALL)
        sd = os.path.join(VERIF, "refactors", rid)
        os.makedirs(sd, exist_ok=True)
        shutil.copy(patch, os.path.join(sd, "patch.diff"))
        notes = os.path.join(out_dir, "notes.md")
        if os.path.exists(notes):
            shutil.copy(notes, os.path.join(sd, "notes.md"))
        meta = {"id": rid, "source": "independent sub-agent asked for a behaviour-preserving refactoring (golden-output test of >= 150 expressions before/after)",
                "suite": rep["suite"], "alarms_first_pass": rep["alarms"]}
        json.dump(meta, open(os.path.join(sd, "meta.json"), "w"), indent=1, ensure_ascii=False)
        return rep
    finally:
        shutil.rmtree(d, ignore_errors=True)
        shutil.rmtree(TARGET + "-" + rid, ignore_errors=True)


def recheck(rid, checks):
    d = tempfile.mkdtemp(prefix="refre-")
    try:
        copy_repo(d)
        rc, out = sh(["patch", "-p1", "--no-backup-if-mismatch", "-i", os.path.join(VERIF, "refactors", rid, "patch.diff")], d)
        if rc != 0:
            return rid, {"patch": ["DOES NOT APPLY"]}
        return rid, run_checks(d, checks)
    finally:
        shutil.rmtree(d, ignore_errors=True)


def main():
    if sys.argv[1] == "--recheck":
        which = sys.argv[2]
        checks = sys.argv[3:] or ALL
        root = os.path.join(VERIF, "refactors")
        ids = sorted(x for x in os.listdir(root) if os.path.isdir(os.path.join(root, x))) if which == "all" else [which]
        with ThreadPoolExecutor(max_workers=5) as ex:
            for rid, det in ex.map(lambda r: recheck(r, checks), ids):
                print("%-8s %s %s" % (rid, "ALARM " if det else "silent", json.dumps(det, ensure_ascii=False)[:600] if det else ""))
                if checks == ALL and "patch" not in det:
                    mp = os.path.join(root, rid, "meta.json")
                    meta = json.load(open(mp))
                    meta["alarms_now"] = det
                    json.dump(meta, open(mp, "w"), indent=1, ensure_ascii=False)
        return 0
    rep = verify(sys.argv[1], sys.argv[2])
    print(json.dumps(rep, indent=1, ensure_ascii=False))
    return 0


if __name__ == "__main__":
    sys.exit(main())
