#!/usr/bin/env python3
"""refactor_report.py: table of the stored behaviour-preserving refactorings and the checks that (still) alarm on them."""
import json, glob, os
VERIF = os.path.dirname(os.path.dirname(os.path.abspath(__file__)))
tot = first = 0
rows = []
for f in sorted(glob.glob(os.path.join(VERIF, "refactors", "*", "meta.json"))):
    m = json.load(open(f))
    now = m.get("alarms_now", m.get("alarms_first_pass", {}))
    fp = m.get("alarms_first_pass", {})
    tot += len(now)
    first += len(fp)
    rows.append((m["id"], len(fp), "silent" if not now else " ".join(sorted(now))))
print("%-8s %-11s %s" % ("id", "first pass", "now"))
for r in rows:
    print("%-8s %-11d %s" % r)
print("%d refactorings; %d silent; alarming (refactoring, check) pairs: first pass %d, now %d of %d" % (len(rows), len([r for r in rows if r[2] == "silent"]), first, tot, 20 * len(rows)))

# README for the directory
lines = ["# Behaviour-preserving changes written by independent sub-agents", "",
         "Each directory holds `patch.diff` (against the /repo commit named in DESIGN.md), the agent's `notes.md` (what was changed and why behaviour is",
         "unchanged) and `meta.json` (`alarms_first_pass`: the checks that alarmed when the change was first run, `alarms_now`: at the last full re-run).",
         "`R<k>`: large refactorings (round 4), `S<k>` / `T<k>`: small routine edits (rounds 5 and 6).  Every check must stay silent on them;",
         "`EXPECT_SILENT.txt` lists the ones on which all 20 checks are silent today - they are re-run by `./check selftest`.", "",
         "Re-run: `tools/refactor_verify.py --recheck <id>|all [checks...]`; table: `tools/refactor_report.py`.", "",
         "| id | alarming checks, first pass | alarming checks, now |", "|---|---|---|"]
for f in sorted(glob.glob(os.path.join(VERIF, "refactors", "*", "meta.json"))):
    m = json.load(open(f))
    now = m.get("alarms_now", m.get("alarms_first_pass", {}))
    fp = m.get("alarms_first_pass", {})
    lines.append("| %s | %s | %s |" % (m["id"], " ".join(sorted(fp)) or "-", " ".join(sorted(now)) or "silent"))
open(os.path.join(VERIF, "refactors", "README.md"), "w").write("\n".join(lines) + "\n")
