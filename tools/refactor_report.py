#!/usr/bin/env python3
"""refactor_report.py: table of the stored behaviour-preserving refactorings and the checks that (still) alarm on them."""
import json, glob, os
VERIF = os.path.dirname(os.path.dirname(os.path.abspath(__file__)))
tot = first = 0
rows = []
for f in sorted(glob.glob(os.path.join(VERIF, "refactors", "*", "meta.json"))):
    m = json.load(open(f))
    now = m.get("alarms_now", m.get("alarms_first_pass", {}))
    fp = m.get("alarms_first_pass", {})
    tot += len(now)
    first += len(fp)
    rows.append((m["id"], len(fp), "silent" if not now else " ".join(sorted(now))))
print("%-8s %-11s %s" % ("id", "first pass", "now"))
for r in rows:
    print("%-8s %-11d %s" % r)
print("%d refactorings; %d silent; alarming (refactoring, check) pairs: first pass %d, now %d of %d" % (len(rows), len([r for r in rows if r[2] == "silent"]), first, tot, 20 * len(rows)))
