#!/usr/bin/env python3
"""Apply one-instance source edits to a scratch copy of /repo and run checks on it.
usage: trymut.py [--test] [--keep] NAME...    (names from mutants/corpus.json)
       trymut.py [--test] --file F --old S --new S [--nth N] -- C04 C05 ..."""
import argparse, json, os, shutil, subprocess, sys, tempfile

VERIF = os.path.dirname(os.path.dirname(os.path.abspath(__file__)))
REPO = os.environ.get("SC_BASE_REPO", "/repo")


def make_copy():
    d = tempfile.mkdtemp(prefix="scmut-", dir=os.environ.get("TMPDIR", "/tmp"))
    for x in ("src", "Cargo.toml", "Cargo.lock", "README.md", "CHANGELOG.md"):
        s = os.path.join(REPO, x)
        if os.path.isdir(s):
            shutil.copytree(s, os.path.join(d, x))
        elif os.path.exists(s):
            shutil.copy(s, os.path.join(d, x))
    return d


def apply_edit(d, ed):
    p = os.path.join(d, ed["file"])
    s = open(p, encoding="utf-8").read()
    n = s.count(ed["old"])
    nth = ed.get("nth", 0)
    if n == 0:
        raise SystemExit("edit does not apply: %r not found in %s" % (ed["old"][:60], ed["file"]))
    if ed.get("all"):
        s = s.replace(ed["old"], ed["new"])
    else:
        if n > 1 and "nth" not in ed:
            raise SystemExit("edit ambiguous (%d matches) in %s: %r" % (n, ed["file"], ed["old"][:60]))
        idx = -1
        for _ in range(nth + 1):
            idx = s.index(ed["old"], idx + 1)
        s = s[:idx] + ed["new"] + s[idx + len(ed["old"]):]
    open(p, "w", encoding="utf-8").write(s)


def run_tests(d):
    t = tempfile.mkdtemp(prefix="scmut-tgt-")
    try:
        p = subprocess.run(["cargo", "test", "--offline", "--quiet"], cwd=d, env=dict(os.environ, CARGO_TARGET_DIR=t),
                           stdout=subprocess.PIPE, stderr=subprocess.STDOUT, text=True)
        ok = p.returncode == 0
        tail = [l for l in p.stdout.splitlines() if "test result" in l or "error" in l][:4]
        return ok, tail
    finally:
        shutil.rmtree(t, ignore_errors=True)


def run_check(d, pid, tier="quick"):
    env = dict(os.environ, SC_REPO=d)
    p = subprocess.run([os.path.join(VERIF, "check"), pid, "--tier", tier], env=env, stdout=subprocess.PIPE, stderr=subprocess.STDOUT, text=True)
    return p.returncode, p.stdout


def main():
    ap = argparse.ArgumentParser()
    ap.add_argument("--test", action="store_true")
    ap.add_argument("--keep", action="store_true")
    ap.add_argument("--file")
    ap.add_argument("--old")
    ap.add_argument("--new")
    ap.add_argument("--nth", type=int)
    ap.add_argument("--tier", default="quick")
    ap.add_argument("names", nargs="*")
    a = ap.parse_args()
    corpus = {}
    cp = os.path.join(VERIF, "mutants", "corpus.json")
    if os.path.exists(cp):
        corpus = {m["name"]: m for m in json.load(open(cp))}
    jobs = []
    if a.file:
        ed = {"file": a.file, "old": a.old, "new": a.new}
        if a.nth is not None:
            ed["nth"] = a.nth
        jobs.append({"name": "adhoc", "edits": [ed], "expect": {p: "" for p in a.names}})
    else:
        for n in a.names:
            jobs.append(corpus[n])
    rc_all = 0
    for j in jobs:
        d = make_copy()
        try:
            for ed in j["edits"]:
                apply_edit(d, ed)
            if a.test:
                ok, tail = run_tests(d)
                print("[%s] cargo test: %s %s" % (j["name"], "PASS" if ok else "FAIL", tail))
            for pid, want in j["expect"].items():
                rc, out = run_check(d, pid, a.tier)
                hit = rc != 0 and (want in out)
                print("[%s] %s -> rc=%d %s" % (j["name"], pid, rc, "DETECTED" if hit else ("detected-other-key" if rc != 0 else "MISSED")))
                if not hit:
                    rc_all = 1
                lines = [l for l in out.splitlines() if l.strip().startswith(("violation", "VIOLATION", "CHECK-BROKEN", "OK"))]
                for l in lines[:8]:
                    print("     " + l.strip()[:200])
            if a.keep:
                print("kept", d)
        finally:
            if not a.keep:
                shutil.rmtree(d, ignore_errors=True)
    sys.exit(rc_all)


if __name__ == "__main__":
    main()
