#!/usr/bin/env python3
"""Regenerates /verif/MANIFEST.json from the table below (kept in one place so it is always valid)."""
import json, os
VERIF = os.path.dirname(os.path.dirname(os.path.abspath(__file__)))
props = [json.loads(l) for l in open(os.path.join(VERIF, "properties.jsonl"))]
ids = [p["id"] for p in props]

CHECKS = {}

def chk(pid, category, text, note, technique, design_ref, thorough=True):
    CHECKS[pid] = {
        "property_id": pid,
        "quick_cmd": "./check %s --tier quick" % pid,
        "thorough_cmd": "./check %s --tier thorough" % pid,
        "evidence_file": "evidence/%s.json" % pid,
        "replay_cmd_template": "./check %s --replay {path}" % pid,
        "engine": "scfacts+rules",
        "level_claimed": {"category": category, "text": text, "design_ref": design_ref},
        "level_note": note,
        "technique": technique,
    }

exec(open(os.path.join(VERIF, "tools", "manifest_table.py")).read())

# additions of round 5 (kept here so that the per-property texts above stay readable)
SUBSET_TIER = ["C02", "C03", "C04", "C05", "C06", "C07", "C08", "C09", "C10", "C11", "C12", "C13", "C14", "C15", "C18", "C19", "C20"]
for pid_ in SUBSET_TIER:
    if pid_ in CHECKS:
        CHECKS[pid_]["level_claimed"]["text"] += (" Shared premises re-established on every run: entry chain, token stream, derived trait impls, and profile independence (no assignment or &mut borrow under a"
            " compile-time constant condition such as debug_assert!/cfg!, no cfg predicate other than the five evaluator features), so the analysed configuration stands for dev and release builds."
            " Thorough tier: the same decision procedure is run directly in every proper feature subset that contains the evaluators concerned (15-30 configurations) in addition to the all-features build.")
for pid_, ev_ in (("C05", "eval_f64"), ("C06", "eval_i64"), ("C07", "eval_decimal"), ("C08", "eval_complex"), ("C09", "eval_number")):
    if pid_ in CHECKS:
        CHECKS[pid_]["level_claimed"]["text"] += " Premise (the statement is about expressions, whose value is that of the standard tree): C04's precedence tables for %s." % ev_
extra = {
    "C02": " The loop census covers every reachable function, including helpers outside the evaluator modules (utils).",
    "C12": " The bracket helper / implicit-product hook may only be an arm's final step (never parses a function argument in the middle of an arm).",
    "C14": " `@` is not in the implicit-product trigger set.",
    "C15": " avg and med of eval_i64 / eval_f64 / eval_number each are the mean / median schema of their own value type (C11's schemas reused).",
    "C19": " eval_complex: a literal directly followed by `i` is the imaginary literal and consumes the `i`.",
}
if "C11" in CHECKS:
    CHECKS["C11"]["level_note"] += "; known findings (eval_number, not repaired): med orders Integers through their doubles (order-dependent above 2^53), min/max compare a mixed Integer/Float pair through the Integer's double"
if "C04" in CHECKS:
    CHECKS["C04"]["level_claimed"]["text"] += " Constants and `@` are leaf primaries (consume their own token only); the post-operand hook does nothing but start an implicit product."
if "C09" in CHECKS:
    CHECKS["C09"]["level_claimed"]["text"] += " The shared superscript scanner (map and run) is a premise for `xⁿ`."
for pid_, tx_ in extra.items():
    if pid_ in CHECKS:
        CHECKS[pid_]["level_claimed"]["text"] += tx_

na = []
for p in ids:
    if p not in CHECKS:
        na.append({"property_id": p, "reason": NOT_YET.get(p, "check not built yet; planned static decision procedure in DESIGN.md section 5")})
m = {
    "version": 1,
    "setup_cmd": "./setup.sh",
    "hooks": {"guard": "string_calculator_verif", "enable": "none: static analysis, nothing is executed and /repo carries no hooks",
              "baseline_off_cmd": "cd /repo && cargo test --workspace --no-fail-fast --offline", "source_commits": [], "add_only": True},
    "engines": [
        {"name": "scfacts", "path": "driver/", "serves_properties": sorted(CHECKS), "kind_free_text": "rustc_private driver (nightly): exports items, typed THIR and MIR of the crate as JSON; type-checks only, nothing is executed"},
        {"name": "rules", "path": "sc/", "serves_properties": sorted(CHECKS), "kind_free_text": "Python rule layer: THIR term normaliser + table extraction vs. reference tables (sc/spec.py), MIR census / dataflow rules, configuration matrix"},
    ],
    "checks": [CHECKS[p] for p in ids if p in CHECKS],
    "notes": "Static analysis only. Every check rebuilds its fact base from the current /repo working tree (content-hash keyed cache under $TMPDIR). known_findings.json lists the fixed defects (18 fix: commits in /repo) and 4 known findings.",
    "not_applicable": na,
}
json.dump(m, open(os.path.join(VERIF, "MANIFEST.json"), "w"), indent=1)
print("checks:", sorted(CHECKS), "not_applicable:", [x["property_id"] for x in na])
