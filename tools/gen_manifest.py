#!/usr/bin/env python3
"""Regenerates /verif/MANIFEST.json from the table below (kept in one place so it is always valid)."""
import json, os
VERIF = os.path.dirname(os.path.dirname(os.path.abspath(__file__)))
props = [json.loads(l) for l in open(os.path.join(VERIF, "properties.jsonl"))]
ids = [p["id"] for p in props]

CHECKS = {}

def chk(pid, category, text, note, technique, design_ref, thorough=True):
    CHECKS[pid] = {
        "property_id": pid,
        "quick_cmd": "./check %s --tier quick" % pid,
        "thorough_cmd": "./check %s --tier thorough" % pid,
        "evidence_file": "evidence/%s.json" % pid,
        "replay_cmd_template": "./check %s --replay {path}" % pid,
        "engine": "scfacts+rules",
        "level_claimed": {"category": category, "text": text, "design_ref": design_ref},
        "level_note": note,
        "technique": technique,
    }

exec(open(os.path.join(VERIF, "tools", "manifest_table.py")).read())

na = []
for p in ids:
    if p not in CHECKS:
        na.append({"property_id": p, "reason": NOT_YET.get(p, "check not built yet; planned static decision procedure in DESIGN.md section 5")})
m = {
    "version": 1,
    "setup_cmd": "./setup.sh",
    "hooks": {"guard": "string_calculator_verif", "enable": "none: static analysis, nothing is executed and /repo carries no hooks",
              "baseline_off_cmd": "cd /repo && cargo test --workspace --no-fail-fast --offline", "source_commits": [], "add_only": True},
    "engines": [
        {"name": "scfacts", "path": "driver/", "serves_properties": sorted(CHECKS), "kind_free_text": "rustc_private driver (nightly): exports items, typed THIR and MIR of the crate as JSON; type-checks only, nothing is executed"},
        {"name": "rules", "path": "sc/", "serves_properties": sorted(CHECKS), "kind_free_text": "Python rule layer: THIR term normaliser + table extraction vs. reference tables (sc/spec.py), MIR census / dataflow rules, configuration matrix"},
    ],
    "checks": [CHECKS[p] for p in ids if p in CHECKS],
    "notes": "Static analysis only. Every check rebuilds its fact base from the current /repo working tree (content-hash keyed cache under $TMPDIR). known_findings.json lists fixed defects (14 fix: commits in /repo).",
    "not_applicable": na,
}
json.dump(m, open(os.path.join(VERIF, "MANIFEST.json"), "w"), indent=1)
print("checks:", sorted(CHECKS), "not_applicable:", [x["property_id"] for x in na])
