#!/usr/bin/env python3
"""Regenerates seeded/README.md from seeded/*/meta.json."""
import json, os, re
V = os.path.dirname(os.path.dirname(os.path.abspath(__file__)))
rows = []
for sd in sorted(os.listdir(V + '/seeded')):
    mp = os.path.join(V, 'seeded', sd, 'meta.json')
    if not os.path.exists(mp):
        continue
    m = json.load(open(mp))
    notes_p = os.path.join(V, 'seeded', sd, 'notes.md')
    notes = open(notes_p).read() if os.path.exists(notes_p) else ''
    head = [l.strip('# ').strip() for l in notes.splitlines() if l.startswith('#')]
    title = head[0] if head else ''
    files = sorted(set(re.findall(r'^\+\+\+ b/(\S+)', open(os.path.join(V, 'seeded', sd, 'patch.diff')).read(), re.M)))
    det = m.get('detected_by', {})
    rows.append((sd, m['breaks_property'], title[:110], ', '.join(files), ', '.join('%s (%s)' % (k, (v[0].split('|', 1)[1][:48] if '|' in v[0] else v[0][:48]) if v else '') for k, v in det.items()), m.get('detected_by_own_property_check')))
out = ['# Seeded changes', '',
       'Each directory holds `patch.diff` (applies to /repo HEAD with `git -C /repo apply`), `demo.rs` (integration test: fails with the patch, passes without), `notes.md` (the author\'s description) and `meta.json`.',
       'All of them were written by fresh sub-agents that were given only the text of one property and a scratch worktree of /repo (nothing from /verif). Round 1 (`-A`, `-B`): two changes per property. Round 2 (`-C`): one more per property; those agents were also told the titles of A and B and asked for a change of a different kind in a less obvious place (shared utils, plumbing, derives/trait impls, constants, conversions, Cargo features, cfg). Every one was re-confirmed by `tools/seed_verify.py` in a scratch copy: patch applies, demo passes on the unchanged tree and fails with the patch, `cargo test --lib` still reports 531 passed. `tools/seed_recheck.py all` re-runs all 20 checks against every patch and refreshes `meta.json`. Rounds 3 and 4 (`-D`, `-E`), and rounds 5 and 6 (`-F`, `-G`, taken after the robustness work; the agents saw all earlier titles and were pointed at build-profile, feature-subset, shared-helper, conversion and iterator mechanisms) follow the same protocol; a few demonstrations need a configuration (`--release`, a feature subset), named at the top of their `demo.rs`. Rounds 5 and 6 are discussed in DESIGN.md R3.', '',
       '| seed | breaks | change (author\'s title) | files | reported by (first key) | own property\'s check |', '|---|---|---|---|---|---|']
for r in rows:
    out.append('| %s | %s | %s | %s | %s | %s |' % (r[0], r[1], r[2].replace('|', '/'), r[3], r[4].replace('|', '/'), 'yes' if r[5] else 'no'))
open(V + '/seeded/README.md', 'w').write('\n'.join(out) + '\n')
print(len(rows), 'seeds;', sum(1 for r in rows if r[5]), 'reported by their own property check')
