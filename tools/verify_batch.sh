#!/bin/bash
# usage: WTROOT=/tmp/wt2 VARIANTS="C" verify_batch.sh C01 C02 ...
cd "$(dirname "$0")/.."
ROOT=${WTROOT:-/tmp/wt}
for id in "$@"; do
  for s in ${VARIANTS:-A B}; do
    if [ -f $ROOT/$id-out/$s/patch.diff ]; then
      tools/seed_verify.py $ROOT/$id-out/$s $id-$s > $ROOT/$id-$s.verify.json 2>&1
      python3 - <<PY
import json
try:
    r=json.load(open('$ROOT/$id-$s.verify.json'))
    print(r['seed'], 'CONFIRMED' if r['confirmed'] else 'NOT-CONFIRMED', r.get('demo_unchanged'), r.get('demo_changed'), r.get('suite_ok'), {k:v[:2] for k,v in r.get('detected_by',{}).items()})
except Exception as e:
    print('$id-$s', 'ERROR', e)
PY
    fi
  done
done
