#!/usr/bin/env python3
"""seed_verify.py <out-dir> <seed-id> [property]: confirm a seeded change produced by a sub-agent
(patch.diff + demo.rs + notes.md) in a scratch copy of /repo, run every check against it, and if it is
confirmed store it under /verif/seeded/<seed-id>/ with meta.json."""
import json, os, shutil, subprocess, sys, tempfile

VERIF = os.path.dirname(os.path.dirname(os.path.abspath(__file__)))
ALL = ["C%02d" % i for i in range(1, 21)]
TARGET = os.path.join(os.environ.get("TMPDIR", "/tmp"), "seed-verify-target")
DEMO_ARGS = os.environ.get("SEED_DEMO_ARGS", "").split()   # e.g. --release, or --no-default-features --features eval_number


def sh(cmd, cwd, env=None, timeout=1200):
    p = subprocess.run(cmd, cwd=cwd, env=env, stdout=subprocess.PIPE, stderr=subprocess.STDOUT, text=True, timeout=timeout)
    return p.returncode, p.stdout


def main():
    out_dir, seed_id = sys.argv[1], sys.argv[2]
    prop = sys.argv[3] if len(sys.argv) > 3 else seed_id[:3]
    patch = os.path.join(out_dir, "patch.diff")
    demo = os.path.join(out_dir, "demo.rs")
    d = tempfile.mkdtemp(prefix="seedchk-")
    env = dict(os.environ, CARGO_TARGET_DIR=TARGET + "-" + seed_id, CARGO_NET_OFFLINE="true")
    rep = {"seed": seed_id, "property": prop}
    try:
        for x in ("src", "Cargo.toml", "Cargo.lock", "README.md", "CHANGELOG.md"):
            s = os.path.join("/repo", x)
            if os.path.isdir(s):
                shutil.copytree(s, os.path.join(d, x))
            else:
                shutil.copy(s, os.path.join(d, x))
        os.makedirs(os.path.join(d, "tests"))
        shutil.copy(demo, os.path.join(d, "tests", "demo.rs"))
        rc, out = sh(["cargo", "test", "--offline", "--test", "demo"] + DEMO_ARGS, d, env)
        rep["demo_unchanged"] = "pass" if rc == 0 else "FAIL"
        rc, out = sh(["patch", "-p1", "--no-backup-if-mismatch", "-i", patch], d)
        rep["patch_applies"] = rc == 0
        if rc != 0:
            rep["patch_output"] = out[-400:]
        else:
            try:
                rc, out = sh(["cargo", "test", "--offline", "--test", "demo"] + DEMO_ARGS, d, env, timeout=300)
                rep["demo_tail"] = out[-600:]
                rep["demo_changed"] = "fail" if rc != 0 else "PASSES(unexpected)"
            except subprocess.TimeoutExpired:
                rep["demo_changed"] = "fail (timeout)"
            rc, out = sh(["cargo", "test", "--offline", "--lib"], d, env)
            line = [l for l in out.splitlines() if l.startswith("test result")]
            rep["suite_changed"] = line[0] if line else out[-300:]
            rep["suite_ok"] = rc == 0 and "531 passed" in (line[0] if line else "")
            os.remove(os.path.join(d, "tests", "demo.rs"))
            det = {}
            cenv = dict(os.environ, SC_REPO=d, SC_NO_STACK="1")
            def one(pid):
                rc, out = sh([os.path.join(VERIF, "check"), pid], VERIF, cenv)
                keys = [l.strip().split(" ", 1)[1] for l in out.splitlines() if l.strip().startswith("violation ")]
                brk = [l.strip() for l in out.splitlines() if "CHECK-BROKEN" in l]
                return pid, rc, keys, brk
            from concurrent.futures import ThreadPoolExecutor
            with ThreadPoolExecutor(max_workers=int(os.environ.get("SEED_JOBS", "6"))) as ex:
                for pid, rc, keys, brk in ex.map(one, ALL):
                    if rc != 0:
                        det[pid] = keys[:5] or brk[:2]
            rep["detected_by"] = det
        rep["confirmed"] = bool(rep.get("patch_applies") and rep.get("demo_unchanged") == "pass" and str(rep.get("demo_changed", "")).startswith("fail") and rep.get("suite_ok"))
        print(json.dumps(rep, indent=1, ensure_ascii=False))
        if rep["confirmed"]:
            sd = os.path.join(VERIF, "seeded", seed_id)
            os.makedirs(sd, exist_ok=True)
            shutil.copy(patch, os.path.join(sd, "patch.diff"))
            shutil.copy(demo, os.path.join(sd, "demo.rs"))
            notes = os.path.join(out_dir, "notes.md")
            if os.path.exists(notes):
                shutil.copy(notes, os.path.join(sd, "notes.md"))
            meta = {"seed": seed_id, "breaks_property": prop, "source": "independent sub-agent given only the property text and a scratch worktree",
                    "needs_to_manifest": "see notes.md", "confirmed_by": "tools/seed_verify.py in a scratch copy of /repo: demo passes unchanged, fails with the patch; cargo test --lib: " + str(rep.get("suite_changed")),
                    "detected_by": rep.get("detected_by", {}), "ran": ["cargo test --offline --test demo (before/after)", "cargo test --offline --lib (after)", "./check C01..C20 with SC_REPO=<scratch>"]}
            json.dump(meta, open(os.path.join(sd, "meta.json"), "w"), indent=1, ensure_ascii=False)
    finally:
        shutil.rmtree(d, ignore_errors=True)
        shutil.rmtree(TARGET + "-" + seed_id, ignore_errors=True)


if __name__ == "__main__":
    main()
