#!/bin/sh
# MANIFEST.setup_cmd: build the fact extractor (rustc_private driver) offline with the pre-installed nightly.
set -e
cd "$(dirname "$0")/driver"
CARGO_NET_OFFLINE=true cargo +nightly build --release --offline
test -x target/release/scfacts
echo "scfacts driver built"
